#!/bin/bash
# try_seeded.sh <id> <property> [tier]: apply a seeded change to /repo's working tree, run the check, undo it.
id="$1"; prop="$2"; tier="${3:-quick}"
patch=/tmp/seeded/$id/patch.diff; [ -f $patch ] || patch=/verif/seeded/$id/patch.diff
cd /repo && git status --short | grep -q . && { echo "repo not clean"; exit 2; }
git apply $patch || exit 2
cd /verif && timeout 3000 ./check $prop $tier > /tmp/seeded/$id/check-$prop-$tier.log 2>&1; rc=$?
git -C /repo checkout -- .
# rebuild against the clean tree so that no mutant binary is left behind (a batch caller sets SKIP_REBUILD and
# rebuilds once at its end)
[ -n "$SKIP_REBUILD" ] || ( cd /verif && ./check build >/dev/null 2>&1 )
echo "$id $prop $tier exit=$rc $(grep -m1 '^violation:' /tmp/seeded/$id/check-$prop-$tier.log | cut -c1-220)"
