#!/bin/bash
# try_round.sh <id>...: try each seeded change under /tmp/seeded against the quick check of its property, one after
# the other; one clean rebuild at the end. Results -> /tmp/seeded/round.log
for id in "$@"; do
  prop=${id:0:3}
  SKIP_REBUILD=1 /verif/bin/try_seeded.sh $id $prop quick | tee -a /tmp/seeded/round.log
done
git -C /repo status --short | grep -q . && echo "REPO NOT CLEAN" | tee -a /tmp/seeded/round.log
( cd /verif && ./check build >/dev/null 2>&1 ); echo "round finished; clean rebuild done" | tee -a /tmp/seeded/round.log
