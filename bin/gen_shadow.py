#!/usr/bin/env python3
"""Generate /verif/shadow/Cargo.toml from /repo/Cargo.toml: same package, lib path=/repo/src/lib.rs, + shuttle dep.
Only rewritten when different, so cargo's fingerprint stays stable."""
import os, re, sys
repo = os.environ.get("VERIF_REPO", "/repo")
here = os.path.dirname(os.path.dirname(os.path.abspath(__file__)))
src = open(os.path.join(repo, "Cargo.toml")).read()
if re.search(r'^\[lib\]', src, re.M):
    sys.stderr.write("gen_shadow: /repo/Cargo.toml already has a [lib] section; refusing\n"); sys.exit(2)
# insert shuttle dep right after [dependencies]
out, n = re.subn(r'^\[dependencies\]\n', '[dependencies]\nshuttle = "0.9.3"\n', src, count=1, flags=re.M)
if n != 1:
    sys.stderr.write("gen_shadow: no [dependencies] section\n"); sys.exit(2)
out = out.replace('readme = "README.md"\n', '')
out += '\n[lib]\nname = "bc_envelope"\npath = "%s/src/lib.rs"\n' % repo
dst = os.path.join(here, "shadow", "Cargo.toml")
os.makedirs(os.path.dirname(dst), exist_ok=True)
old = open(dst).read() if os.path.exists(dst) else None
if old != out:
    open(dst, "w").write(out)
