#!/bin/bash
# regress_seeded.sh [lanes]: regression pass over ALL kept seeded changes with the current machinery, in parallel
# lanes. Each lane has its own scratch worktree of /repo (under /tmp/lane<k>/repo) and its own copy of the simulators
# whose manifests point at that worktree, so /repo itself is not touched and the lanes do not disturb each other.
# (Every kept change was first tried on /repo itself with bin/try_seeded.sh, as recorded in its meta.json; this pass
# only re-checks that later extensions of the workload did not lose one.) Results -> /tmp/seeded/results.txt in the
# format bin/gen_sensitivity.py reads. Lanes and their build output are removed at the end.
lanes=${1:-4}
out=/tmp/seeded/results.txt; : > $out
ids=( $(ls /verif/seeded) )
head=$(git -C /repo rev-parse HEAD)
lane() {
  k=$1; L=/tmp/lane$k
  rm -rf $L; mkdir -p $L/verif/bin
  git -C /repo worktree add -q -f --detach $L/repo $head
  rsync -a --exclude target /verif/sim /verif/sched /verif/vendor $L/verif/
  cp /verif/known_findings.json $L/verif/; cp /verif/bin/gen_shadow.py $L/verif/bin/
  sed -i "s#path = \"/repo\"#path = \"$L/repo\"#" $L/verif/sim/Cargo.toml
  ( cd $L/verif && VERIF_REPO=$L/repo python3 bin/gen_shadow.py )
  i=0
  for id in "${ids[@]}"; do
    i=$((i+1)); [ $((i % lanes)) -eq $k ] || continue
    d=/verif/seeded/$id; prop=${id:0:3}; [ -f $d/check_with ] && prop=$(cat $d/check_with)
    ( cd $L/repo && git checkout -q -- . && git apply $d/patch.diff ) || { echo "$id $prop quick exit=2 patch does not apply" >> $out; continue; }
    if [ $prop = C20 ]; then
      ( cd $L/verif/sched && CARGO_NET_OFFLINE=true cargo build --release --offline >$L/build.log 2>&1 ) || { echo "$id $prop quick exit=2 build failed" >> $out; continue; }
      ( cd $L/verif && VERIF_DIR=$L/verif ./sched/target/release/schedsim run C20 quick > $L/$id.log 2>&1 ); rc=$?
    else
      ( cd $L/verif/sim && CARGO_NET_OFFLINE=true cargo build --release --offline >$L/build.log 2>&1 ) || { echo "$id $prop quick exit=2 build failed" >> $out; continue; }
      ( cd $L/verif && VERIF_DIR=$L/verif ./sim/target/release/envsim run $prop quick > $L/$id.log 2>&1 ); rc=$?
    fi
    echo "$id $prop quick exit=$rc $(grep -m1 '^violation:' $L/$id.log | cut -c1-220)" >> $out
  done
  ( cd $L/repo && git checkout -q -- . )
  git -C /repo worktree remove --force $L/repo; rm -rf $L
}
for k in $(seq 0 $((lanes-1))); do lane $k & done
wait
git -C /repo worktree prune
sort -o $out $out
echo "regression pass finished: $(grep -c 'exit=1' $out) of ${#ids[@]} caught"
