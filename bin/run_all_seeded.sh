#!/bin/bash
# run every kept seeded change against the quick check of its property (or of the property named in
# /verif/seeded/<id>/check_with, when the change is caught by a related property's check by design);
# results -> /tmp/seeded/results.txt
out=/tmp/seeded/results.txt; : > $out
for d in /verif/seeded/*/; do
  id=$(basename $d); prop=${id:0:3}
  [ -f $d/check_with ] && prop=$(cat $d/check_with)
  r=$(SKIP_REBUILD=1 /verif/bin/try_seeded.sh $id $prop quick)
  echo "$r" | tee -a $out
done
( cd /verif && ./check build >/dev/null 2>&1 ); echo "all done; clean rebuild done" >> $out
