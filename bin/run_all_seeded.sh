#!/bin/bash
# run every kept seeded change against the quick check of its property; results -> /tmp/seeded/results.txt
out=/tmp/seeded/results.txt; : > $out
for d in /verif/seeded/*/; do
  id=$(basename $d); prop=${id:0:3}
  r=$(/verif/bin/try_seeded.sh $id $prop quick)
  echo "$r" | tee -a $out
done
