#!/usr/bin/env python3
"""store_seeded.py <id> <property-whose-check-caught-it> [round-note]
Keep a confirmed and caught seeded change: copy /tmp/seeded/<id>/{patch.diff,demo.rs,note.txt} to
/verif/seeded/<id>/ and write meta.json from confirm.txt (bin/confirm_seeded.sh) and the check log
(bin/try_seeded.sh). Refuses if the change is not confirmed or the check did not exit 1."""
import json, os, re, shutil, subprocess, sys
cid, prop = sys.argv[1], sys.argv[2]
note_round = sys.argv[3] if len(sys.argv) > 3 else ""
src, dst = f"/tmp/seeded/{cid}", f"/verif/seeded/{cid}"
confirm = open(f"{src}/confirm.txt").read()
if "RESULT confirmed" not in confirm:
    sys.exit(f"{cid}: not confirmed")
log = open(f"{src}/check-{prop}-quick.log").read()
viol = re.search(r"^violation: .*$", log, re.M)
vline = re.search(r"^VIOLATION property=(\S+) replay=(\S+)", log, re.M)
if not vline:
    sys.exit(f"{cid}: the {prop} check did not report a violation")
os.makedirs(dst, exist_ok=True)
for f in ("patch.diff", "demo.rs", "note.txt"):
    shutil.copy(f"{src}/{f}", f"{dst}/{f}")
own = cid[:3]
if prop != own:
    open(f"{dst}/check_with", "w").write(prop + "\n")
def grab(key):
    m = re.search(rf"^{key}\s*(.*)$", confirm, re.M)
    return m.group(1).strip() if m else ""
head = subprocess.run(["git", "-C", "/repo", "rev-parse", "--short", "HEAD"], capture_output=True, text=True).stdout.strip()
applies = subprocess.run(["git", "-C", "/repo", "apply", "--check", f"{dst}/patch.diff"]).returncode == 0
msg = viol.group(0) if viol else ""
m = re.search(r"oracle=(\S+) run=(\d+)(?: steps (\d+)->(\d+))?", msg)
meta = {
    "id": cid,
    "property": own,
    "written_by": "independent sub-agent given only the property text and a scratch worktree (nothing from /verif)" + (("; " + note_round) if note_round else ""),
    "what_it_needs_to_manifest": open(f"{src}/note.txt").read().strip(),
    "confirmed_in_scratch_worktree": {
        "command": f"/verif/bin/confirm_seeded.sh {cid}",
        "applies_and_compiles": True,
        "existing_suite_with_change": grab("suite-with-mutant:"),
        "demo_with_change": grab("demo-with-mutant:"),
        "demo_without_change": grab("demo-without-mutant:"),
        "result": "confirmed",
    },
    "patch_applies_to_repo_head": {"head": head, "applies": applies},
    "detected_by": {
        "check": f"./check {prop} quick",
        "exit": 1,
        "oracle": m.group(1) if m else "",
        "first_failing_run_index": int(m.group(2)) if m else None,
        "steps_before_after_minimisation": [int(m.group(3)), int(m.group(4))] if m and m.group(3) else None,
        "message": msg,
    },
}
json.dump(meta, open(f"{dst}/meta.json", "w"), indent=1)
print(f"stored {cid}: caught by {prop}: {msg[:160]}")
