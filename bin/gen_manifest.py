#!/usr/bin/env python3
"""Generate /verif/MANIFEST.json from the table below (kept in one place so it is always valid)."""
import json, os, subprocess
here = os.path.dirname(os.path.dirname(os.path.abspath(__file__)))

TRUST = ("Trusted base: rustc/std, the sha2 crate, the simulator (its PRNG, CBOR reader/writer, digest model, oracles), "
         "the AEAD/signature/KEM primitives in bc-crypto, and dcbor's encoder for plain values (cross-checked at start-up "
         "against the model writer). Sampled, not exhaustive, unless the evidence says exhaustive for a sub-space; bounds are in the evidence file.")

CHECKS = {
 "C20": ("exploration", "§10 C20",
   "2-8 (thorough: up to 16) shuttle threads each run 1-4 operations (each exactly one library call) drawn from {format, format_flat, tree_format, diagnostic_annotated, hex, register_tags, format-context read, known-value / function / parameter registry lookups, dcbor-level annotated diagnostic, codec/digest of an Arc-shared envelope, register_tags-then-ur_string, custom-tag registration then format, holding the registry lock while another thread formats, summaries / Display of responses (incl. early failure), requests, events and expressions, registration of own entries in the parameter / function / known-value registries followed by look-up, configuring the global context as flat, registering an application tag in dcbor's registry before first use, registering a function and a parameter that have numbers but no names, format_opt(None)} on three envelopes that include edge-of-type integers, a malformed embedded envelope, a map leaf holding a PublicKeys value and seventy levels of wrapping, over the real registry code, every execution starting from uninitialised registries, under seeded Random and PCT(1-3) schedules. Oracles: completion (deadlock, re-entrant acquisition, poisoned lock, panic), every formatting result equals a text the call returns alone, linearizability of results against a monotone three-state model (S0 nothing initialised / S1 context initialised / S2 register_tags done) using invoke/return sequence stamps, identical digest/bytes for the shared envelope, ur_string after own register_tags never panics.",
   "deterministic schedule simulation (shuttle Random/PCT) with linearizability check against a 3-state sequential model"),
 "C17": ("exploration", "§10 C17",
   "Salting operations (add_salt, add_salt_with_len around 8, add_salt_in_range with lower bounds around 8, add_assertion_salted true/false, the _using variants, add_salt_instance, salted batches, decorated assertions whose core is obscured or that carry assertions on two levels, lengths and ranges around 65536, two further parties salting the same envelope on threads of their own) on envelopes of serialized size 1 B - 10 KB (padding steers sizes across the rule's 64/160/320-byte switch points), every draw coming from the simulator-owned library RNG stream, plus hostile boundary draws through add_salt_using. Oracles: subject and prior assertions unchanged, exactly one 'salt' assertion of documented length, short requests refused, salted assertion found by predicate and carrying exactly one salt, independent saltings differ in digest, unsalted add deterministic.",
   "deterministic simulation over the library RNG seam (seeded stream + boundary draws)"),
 "C18": ("exploration", "§10 C18",
   "Client parties build expressions, requests (dates stamped from the simulated clock: absent, integral, fractional, negative), responses (success, default-OK, failure, early failure) and events, send them through the transport; server parties parse directly and from bytes, with and without expected function. Functions and parameters range over numeric ids up to u64::MAX, named ones incl. the empty name, names with display names; they also travel as URs of their own types. In-flight single mutations: add a result/error, remove it, retag or untag the subject, replace the function. Oracles: parsed value equals the original (parameters read back from their assertions), documented shape (incl. the numbers of the fifteen well-known functions and three parameters and the default result / error of a response), listed malformations rejected, UR type names and cross-type rejection.",
   "deterministic client/server simulation with simulated clock and single structural mutations in flight"),
 "C19": ("exploration", "§10 C19",
   "Vendors contribute attachments (payloads of any shape from seeded histories, vendor, optional conformsTo) and types to replicas in different orders with duplicates; readers query all / by vendor / by conformsTo / both and the single-result form, and load the Attachments container (also onto an envelope that already carries its attachments), validate single assertions directly, and query after the 'attachment' predicate or a type object was obscured; one attachment assertion is altered in flight (vendor removed, duplicated, not text; payload unwrapped; conformsTo duplicated; an assertion hung on the object or on the assertion itself). Oracles: result set equals the model's distinct (payload digest, vendor, conformsTo) triples filtered the same way; single-result errors for none/several; malformed reported invalid; type checks true exactly for added types.",
   "deterministic simulation of contribution orders and malformed-in-flight attachments vs. set model"),
 "C01": ("exploration", "§10 C01",
   "Seeded search over operation histories (3-30 ops: construct, add/remove/replace through every equivalent entry point incl. the batch forms, wrap, obscure with every action through all eighteen elide entry points, decrypt/uncompress, encode->decode through eight transport forms; salts of known bytes and attachments built by the typed extension calls, target lists with repeats, assertions with colliding digest prefixes, typed vectors, 8-20 assertions, nesting up to 24 levels, leaves up to 70 KB) executed in lock-step against an independent model that computes every digest from the draft's rules with sha2; every position, accessor and walk order compared after every step.",
   "deterministic simulation of seeded operation histories vs. executable reference model (spec digests)"),
 "C02": ("exploration", "§10 C02",
   "Seeded histories in which holders obscure documents (both modes, all three actions, target sets incl. absent/multi-position/root, already-obscured inputs; whole-envelope elide/encrypt/compress) under the simulator's nonce stream; root digest and a parallel positional walk of before/after checked after every obscuring step.",
   "deterministic simulation of seeded obscuring histories, before/after positional digest oracle"),
 "C03": ("exploration", "§10 C03",
   "Seeded elision histories checked against the model's visibility rule position by position, un-elision offered right and wrong content; marker-residue scan of wire bytes; content held in encrypted / compressed form never degrades to a bare digest in a later pass; a panic of the elision itself counts.",
   "deterministic simulation, model-predicted visibility pattern + residue scan"),
 "C04": ("exploration", "§10 C04",
   "Seeded operation histories over the whole op language (incl. 8-20 assertions on one subject, nesting 5-10 deep, leaves up to 70 KB, envelopes whose subject is a node, obscured elements handed over as typed values); after each step the returned envelope is checked structurally through case() and its bytes are parsed by an independent grammar recogniser that recomputes all digests; elements the library encrypts / compresses in place are opened again and must hold what stood there; what the decoder accepts from the wire-fault engine must be well-formed too.",
   "deterministic simulation of seeded histories + independent grammar/digest recogniser"),
 "C05": ("exploration", "§10 C05",
   "Every document of the seeded histories is sent through CBOR-bytes, UR-string and CBOR-value transport and decoded; identity (library and model), positional case/digest equality and byte-equal re-encoding are checked.",
   "deterministic simulation, encode->transport->decode round-trip oracle against model"),
 "C06": ("fault_enumeration", "§10 C06",
   "Receivers decode what a faulty network/storage delivers: byte-level corruption (flip, truncate, insert, delete, overwrite; single and double), 22 kinds of structure-aware CBOR mutations made by the simulator's own reader/writer (single, double, followed by a bit flip), random bytes; a sub-family enumerates EVERY single-bit flip and every structural mutation kind x site of each small encoding. Oracles: never panics; accepted => re-encodes to the input (modulo the #6.24 alias); mutations ill-formed by construction must be rejected.",
   "deterministic simulation with injected corruption faults; exhaustive single-fault enumeration per encoding"),
 "C08": ("fault_enumeration", "§10 C08",
   "Owner encrypts (subject / wrapped whole, every subject case incl. a subject that is itself a node, or already elided / compressed / encrypted), element travels through the wire; faults: tampering of each field (ciphertext, nonce, auth tag, declared digest), bit flips anywhere in the encoding, wrong key, Byzantine key holder mis-declaring the digest (bare and node subject); a sub-family enumerates every single-bit flip of every field of small encrypted elements. Fault-free configuration checks identical round trip, digest kept, second encryption refused. A panic after a fault counts as a violation (the property demands an error).",
   "deterministic simulation with field-tamper / bit-flip / wrong-key / mis-declare faults; per-element single-bit enumeration"),
 "C09": ("exploration", "§10 C09",
   "Signers (Schnorr, ECDSA, Ed25519, SSH-Ed25519; further SSH variants and ML-DSA in thorough) sign with and without metadata, one by one, several in one call, and with signatures made apart from the envelope and attached afterwards; holders add assertions, obscure the subject / sibling assertions / other signers' signature objects, replace the subject; Byzantine parties attach non-signature objects, unsigned and foreign-signed metadata wrappers and signatures over other digests; the verifier receives the envelope through the transport. Oracles: has/verify_signature_from against a model of who validly signed which subject digest, threshold arithmetic for distinct key lists and t in 1..n+1 and None, returned metadata covered by an outer signature of the same key (checked with the raw verifier).",
   "deterministic multi-party simulation with wrong-key and Byzantine-signature faults vs. signer model"),
 "C10": ("exploration", "§10 C10",
   "Senders encrypt to recipient lists of size 1-5 (duplicates allowed; X25519 and ML-KEM-512/768, also mixed within one list; SSH-key senders) in subject form (leaf, node-shaped and compressed subjects), wrap-and-encrypt form and seal; recipients are added later; every listed and unlisted party tries to open its delivered copy; wrong sender/recipient keys and misrouted sealed envelopes for unseal.",
   "deterministic multi-party simulation over recipient configurations with wrong-key / misroute faults"),
 "C11": ("fault_enumeration", "§10 C11",
   "Owner encrypts and splits under sampled policies (<=3 groups x <=4 members; more in thorough); custodians return shares through the transport; message loss decides which subset arrives - ALL subsets are enumerated when there are <=8 shares (<=12 in thorough); duplicated deliveries, foreign shares of a second split mixed in, a share envelope split a second time, policies with 9-14 groups, boundary draws of the split RNG. Oracle: join = original decrypted subject iff the policy is met (pure subsets), never a different envelope and never a panic otherwise.",
   "deterministic simulation with message loss/duplication/misrouting; exhaustive subset enumeration per split"),
 "C12": ("exploration", "§10 C12",
   "Holders produce proofs for target sets (empty, single - also through the single-target entry points -, multiple, multi-position, nested, root, absent; the same targets asked of a full and of a partly elided copy of one document, in either order) of documents from seeded histories and send them; the verifier holds only the root digest; proofs are tampered in flight (byte and structural mutations) or misrouted (proof for another document / other targets). Oracles: produced iff all targets present; produced proof accepted; accepted => same root digest and every target visible (judged by the independent recogniser); disclosed elements lie on root-to-target paths and innermost targets are elided.",
   "deterministic multi-party simulation with tampered / misrouted proofs vs. model digest sets"),
 "C13": ("fault_enumeration", "§10 C13",
   "compress / compress_subject over every subject case (compressible, raw-stored and empty payloads, compressed element reused as subject of further assertions), stored, reloaded, uncompressed; faults: tampering of checksum/size/data/declared digest, bit flips (every bit of small encodings in the enumeration sub-family), misdirected writes and Byzantine mis-declared content. Oracles: identical after uncompress, same digest at every step, idempotent; under faults Err or the same visible content, never other data.",
   "deterministic simulation with field-tamper / bit-flip / misdirected-write / mis-declare faults; per-encoding single-bit enumeration"),
 "C16": ("exploration", "§10 C16",
   "About 130 call shapes of the query / transform / obscure / verify / parse / format families applied under catch_unwind to documents from seeded histories, decorated assertions (salted, signed with metadata, recipient- and share-bearing, typed, attachments, requests/responses), every obscuration pattern and adversarially decoded documents (survivors of the wire fault engine), plus well-formed envelopes whose typed leaves (shares, salts, signatures, sealed messages, dates) are malformed for the extension that reads them, and threshold-meeting SSKR shares of secrets that are not content keys. A panic is the crash. Documents holding an out-of-range date leaf (known finding D7, which would poison the process-wide format context) are probed in a sacrificial child process.",
   "deterministic simulation, panic-as-crash oracle over seeded histories and fault-injected decoded inputs"),
 "C07": ("exploration", "§10 C07",
   "Seeded histories with duplicate adds (also through the salted(false) / optional / conditional / batch entry points), add/remove inverses, wrap/unwrap, remove-last; model-predicted exact bytes for every clear/elided document; every input document re-encoded after each step to prove it was not altered.",
   "deterministic simulation of seeded assembly orders vs. model-predicted bytes"),
}

NA = [
 ("C14", "pure relation on pairs of values: the statement quantifies over no schedule, clock, fault, delivery order or RNG stream, and the library has no concurrency/time/I-O for it to depend on; a simulator could only act as an input generator (DESIGN.md §11)"),
 ("C15", "pure function of one envelope and the query arguments: nothing for a scheduler or fault injector to own (DESIGN.md §11)"),
]

def main():
    hooks_commits = ["6115c04"]
    checks = []
    for pid in sorted(CHECKS):
        cat, ref, text, tech = CHECKS[pid]
        checks.append({
            "property_id": pid,
            "quick_cmd": "./check %s quick" % pid,
            "thorough_cmd": "./check %s thorough" % pid,
            "evidence_file": "/verif/evidence/%s.json" % pid,
            "replay_cmd_template": "./check replay {path}",
            "engine": "schedsim" if pid == "C20" else "envsim",
            "level_claimed": {"category": cat, "text": text, "design_ref": ref},
            "level_note": TRUST,
            "technique": tech,
        })
    claimed = set(CHECKS)
    na = [{"property_id": p, "reason": r} for p, r in NA]
    for i in range(1, 21):
        pid = "C%02d" % i
        if pid not in claimed and pid not in [p for p, _ in NA]:
            na.append({"property_id": pid, "reason": "not yet claimed: the scenario family for this property is still being built (see DESIGN.md §10); no verdict is given"})
    m = {
        "version": 1,
        "setup_cmd": "./setup.sh",
        "hooks": {
            "guard": "bc_envelope_verif",
            "enable": "RUSTFLAGS='--cfg bc_envelope_verif' through /verif/sched/.cargo/config.toml; /verif/shadow/Cargo.toml (generated from /repo/Cargo.toml, lib path=/repo/src/lib.rs) adds the shuttle dependency",
            "baseline_off_cmd": "cd /repo && cargo test --workspace --no-fail-fast --offline",
            "source_commits": hooks_commits,
            "add_only": True,
        },
        "engines": [
            {"name": "envsim", "path": "/verif/sim", "serves_properties": [p for p in sorted(claimed) if p != "C20"],
             "kind_free_text": "deterministic multi-party document-lifecycle simulator: seeded step/fault lists executed against the real library and an independent reference model; library entropy behind a per-thread seeded seam (vendored bc-rand)"},
            {"name": "schedsim", "path": "/verif/sched", "serves_properties": ["C20"] if "C20" in claimed else [],
             "kind_free_text": "shuttle-controlled scheduler over the cfg-hooked global registries and a one-line-patched dcbor; seeded Random/PCT schedules, replayable schedule files"},
        ],
        "checks": checks,
        "not_applicable": na,
        "notes": "Technique family: deterministic simulation with fault injection. Exit codes: 0 held, 1 violation (VIOLATION line + replay file), 2 harness error. Known findings and fixed defects: /verif/known_findings.json. See DESIGN.md.",
    }
    json.dump(m, open(os.path.join(here, "MANIFEST.json"), "w"), indent=1)
    print("MANIFEST.json: %d checks, %d not_applicable" % (len(checks), len(na)))

main()
