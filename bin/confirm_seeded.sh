#!/bin/bash
# confirm_seeded.sh <id>: independently confirm a seeded change delivered in /tmp/seeded/<id>/:
#  (1) applies to a clean scratch worktree and compiles, (2) the existing suite (no demo present) still
#  passes with it, (3) the demonstration fails with it, (4) the demonstration passes without it.
# Writes /tmp/seeded/<id>/confirm.txt. Uses its own worktree /tmp/wtv (serial use only).
id="$1"; src=/tmp/seeded/$id; wt=/tmp/wtv
export CARGO_NET_OFFLINE=true CARGO_TARGET_DIR=/tmp/wtv-target
[ -d $wt ] || git -C /repo worktree add -q --detach $wt HEAD
cd $wt && git checkout -q --detach $(git -C /repo rev-parse HEAD) && git checkout -- . && git clean -fdq tests
out=$src/confirm.txt; : > $out
if ! git apply --check $src/patch.diff 2>>$out; then echo "RESULT patch-does-not-apply" >> $out; exit 1; fi
git apply $src/patch.diff
suite=$(cargo test --offline --no-fail-fast 2>&1)
echo "$suite" | grep -E '^test result|FAILED|^error' >> $out
fails=$(echo "$suite" | grep -E '^test .* FAILED|^error' | wc -l)
oks=$(echo "$suite" | grep -c '^test result: ok')
cp $src/demo.rs tests/demo_$id.rs
with=$(cargo test --offline --test demo_$id 2>&1 | grep -E '^test result|^error' | head -1)
git checkout -- src
without=$(cargo test --offline --test demo_$id 2>&1 | grep -E '^test result|^error' | head -1)
echo "suite-with-mutant: $oks result lines ok, $fails failures" >> $out
echo "demo-with-mutant:    $with" >> $out
echo "demo-without-mutant: $without" >> $out
ok=1
echo "$with" | grep -q FAILED || ok=0
echo "$without" | grep -q 'test result: ok' || ok=0
[ "$fails" = "0" ] || ok=0
[ "$oks" -ge 20 ] || ok=0
if [ $ok = 1 ]; then echo "RESULT confirmed" >> $out; else echo "RESULT not-confirmed" >> $out; fi
rm -f tests/demo_$id.rs
tail -4 $out
