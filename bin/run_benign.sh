#!/bin/bash
# Specificity: apply each behaviour-neutral edit in /verif/benign to /repo's working tree, run the quick checks named
# in its first line, expect exit 0 everywhere, undo. Results -> /tmp/seeded/benign-results.txt
out=/tmp/seeded/benign-results.txt; : > $out
cd /repo && git status --short | grep -q . && { echo "repo not clean"; exit 2; }
for f in /verif/benign/*.diff; do
  name=$(basename $f .diff); checks=$(head -1 $f | sed 's/^# checks: //')
  ( cd /repo && tail -n +2 $f | git apply ) || { echo "$name: patch does not apply" | tee -a $out; continue; }
  for p in $checks; do
    ( cd /verif && ./check $p quick > /tmp/seeded/benign-$name-$p.log 2>&1 ); rc=$?
    echo "$name $p exit=$rc $(grep -m1 '^violation:' /tmp/seeded/benign-$name-$p.log | cut -c1-200)" | tee -a $out
  done
  git -C /repo checkout -- .
done
( cd /verif && ./check build >/dev/null 2>&1 )
