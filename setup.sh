#!/bin/bash
# MANIFEST.setup_cmd: build the framework from files on disk only (offline).
cd "$(dirname "$(readlink -f "$0")")"
exec ./check build
