use bc_envelope::prelude::*;
use shuttle::thread;
fn main() {
    shuttle::check_random(|| {
        let hs: Vec<_> = (0..3).map(|i| thread::spawn(move || {
            let e = Envelope::new("Alice").add_assertion("knows", i);
            e.format()
        })).collect();
        for h in hs { let s = h.join().unwrap(); assert!(s.contains("Alice")); }
    }, 200);
    println!("ok");
}
