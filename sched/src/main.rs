//! schedsim — engine 2: the global registries of bc-envelope (format context, known values,
//! functions, parameters; dcbor's global tags) under a scheduler the simulator owns (shuttle).
//! Every execution starts from *uninitialised* registries, so first-use races are the norm.
//!
//!   schedsim run C20 <quick|thorough>
//!   schedsim replay <file.json>

use bc_components::DigestProvider;
use bc_envelope::extension::expressions::{Function, Parameter};
use bc_envelope::prelude::*;
use bc_envelope::{with_format_context, FormatContext};
use serde_json::json;
use shuttle::scheduler::{PctScheduler, RandomScheduler};
use shuttle::{thread, Config, FailurePersistence, MaxSteps, Runner};
use std::collections::{BTreeMap, HashSet};
use std::sync::atomic::{AtomicU64, AtomicUsize, Ordering};
use std::sync::{Arc, Mutex as StdMutex, OnceLock};
use std::time::Instant;

// ---------------------------------------------------------------------------------------
// workload

/// An envelope whose notation differs between S1 (format context initialised) and S2
/// (envelope-level summarizers installed by register_tags): function, parameter, known value,
/// request-tagged leaves.
fn probe_envelope() -> Envelope {
    Envelope::new(Function::from(2u64))
        .add_assertion(Parameter::from(1u64), "x")
        .add_assertion(known_values::IS_A, CBOR::to_tagged_value(40000u64, 3u64))
        .add_assertion("fn", Function::new_named("foo"))
        .add_assertion(known_values::NOTE, CBOR::to_tagged_value(40004u64, "req"))
}

fn plain_envelope() -> Envelope {
    // includes a text leaf longer than the 40-byte summary limit with a multi-byte character across byte 40
    Envelope::new("Alice")
        .add_assertion("knows", "Bob")
        .add_assertion(known_values::IS_A, known_values::SEED_TYPE)
        .add_assertion("note", "Die Strasse nach Norden ist im Winter geschlossen für alle Fahrzeuge")
        .add_assertion("n2", format!("{}é tail that makes the text long enough", "a".repeat(39)))
        // numbers at the edges of the integer types (the most negative CBOR integer, -2^64, has no Rust integer type)
        .add_assertion("lowest", CBOR::try_from_hex("3bffffffffffffffff").expect("cbor"))
        .add_assertion("below i64", CBOR::try_from_hex("3b8000000000000000").expect("cbor"))
        .add_assertion("highest", u64::MAX)
        // a leaf holding envelope-tagged CBOR that is not a well-formed envelope (a node whose second element is no
        // assertion): the notation shows an error for it, every time and on every thread
        .add_assertion("payload", CBOR::try_from_hex("d8c882d8c96161d8c96162").expect("cbor"))
}

#[derive(Clone, Copy, Debug, PartialEq, Eq, Hash, PartialOrd, Ord)]
enum Op {
    Format,
    FormatFlat,
    TreeFormat,
    DiagAnnotated,
    Hex,
    RegisterTags,
    ContextRead,
    KnownValuesLookup,
    FunctionsLookup,
    DcborDiag,
    SharedCodec,
    RegisterThenUr,
    /// a thread registers its own tag name in the global format context and then formats an
    /// envelope carrying that tag: its own registration must be visible to it (program order)
    CustomTagThenFormat,
    /// after this thread has itself used the format context, it consults the known-value registry and,
    /// while still holding that guard, formats an envelope carrying a known value the context has no name
    /// for (a pattern the shipped code supports once the context is initialised)
    HoldRegistryThenFormat,
    /// one formatting call each: summary of an early-failure response (no id), Display of a successful response,
    /// summary of a request, summary of an event, Display of an expression
    EarlyFailureSummary,
    ResponseDisplay,
    RequestSummary,
    EventSummary,
    ExpressionDisplay,
    /// a thread adds its own entries to the global parameter / function / known-value registries (possibly as
    /// their first user) and looks them up again: its own registrations are never lost
    RegisterInStoresThenLookup,
    /// the application configures the global format context as flat, formats, and restores the setting
    ConfigureFlatThenFormat,
    /// the application registers a tag of its own in dcbor's global tag registry and then formats a value that
    /// carries it: the tag's name shows iff the format context was first used after the registration
    RegisterDcborTagThenFormat,
    /// envelope notation under no context at all (`format_opt(None)`): a function of the envelope alone, whatever
    /// any thread has registered in the global context
    FormatOptNone,
    /// a thread registers a function and a parameter that have numbers but no names (possibly as the registries'
    /// first user) and asks for their names: the numbers, from every thread, and the registries stay usable
    RegisterUnnamedThenLookup,
}
const OPS: [Op; 24] = [Op::Format, Op::FormatFlat, Op::TreeFormat, Op::DiagAnnotated, Op::Hex, Op::RegisterTags, Op::ContextRead, Op::KnownValuesLookup, Op::FunctionsLookup, Op::DcborDiag, Op::SharedCodec, Op::RegisterThenUr, Op::CustomTagThenFormat, Op::HoldRegistryThenFormat, Op::EarlyFailureSummary, Op::ResponseDisplay, Op::RequestSummary, Op::EventSummary, Op::ExpressionDisplay, Op::RegisterInStoresThenLookup, Op::ConfigureFlatThenFormat, Op::RegisterDcborTagThenFormat, Op::FormatOptNone, Op::RegisterUnnamedThenLookup];

impl Op {
    /// uses the global format context (initialises it on first use)
    fn initialises(&self) -> bool {
        matches!(self, Op::Format | Op::FormatFlat | Op::TreeFormat | Op::DiagAnnotated | Op::Hex | Op::RegisterTags | Op::ContextRead | Op::RegisterThenUr | Op::CustomTagThenFormat | Op::HoldRegistryThenFormat | Op::EarlyFailureSummary | Op::ResponseDisplay | Op::RequestSummary | Op::EventSummary | Op::ExpressionDisplay | Op::ConfigureFlatThenFormat | Op::RegisterDcborTagThenFormat)
    }
    fn registers(&self) -> bool {
        matches!(self, Op::RegisterTags | Op::RegisterThenUr)
    }
    fn formats(&self) -> bool {
        matches!(self, Op::Format | Op::FormatFlat | Op::TreeFormat | Op::DiagAnnotated | Op::Hex | Op::EarlyFailureSummary | Op::ResponseDisplay | Op::RequestSummary | Op::EventSummary | Op::ExpressionDisplay)
    }
}

fn run_op(op: Op, e: &Envelope, shared: &Arc<Envelope>) -> String {
    match op {
        Op::Format => e.format(),
        Op::FormatFlat => e.format_flat(),
        Op::TreeFormat => e.tree_format(false),
        Op::DiagAnnotated => e.diagnostic_annotated(),
        Op::Hex => e.hex(),
        Op::RegisterTags => {
            bc_envelope::register_tags();
            String::new()
        }
        Op::ContextRead => with_format_context!(|c: &FormatContext| c.known_values().name(known_values::IS_A)),
        Op::KnownValuesLookup => {
            let b = known_values::KNOWN_VALUES.get();
            let s = b.as_ref().unwrap();
            format!("{}/{}", s.name(known_values::NOTE), s.known_value_named("isA").map(|k| k.value()).unwrap_or(0))
        }
        Op::FunctionsLookup => {
            let fname = {
                let b = bc_envelope::extension::expressions::GLOBAL_FUNCTIONS.get();
                bc_envelope::extension::expressions::FunctionsStore::name_for_function(&Function::from(2u64), b.as_ref())
            };
            let pname = {
                let b = bc_envelope::extension::expressions::GLOBAL_PARAMETERS.get();
                bc_envelope::extension::expressions::ParametersStore::name_for_parameter(&Parameter::from(1u64), b.as_ref())
            };
            format!("{}/{}", fname, pname)
        }
        Op::DcborDiag => e.tagged_cbor().diagnostic_annotated(),
        Op::SharedCodec => {
            // digest / encoding / decoding of one Arc-shared envelope
            let bytes = shared.to_cbor_data();
            let back = Envelope::try_from_cbor_data(bytes.clone()).map(|x| x.digest().into_owned().hex()).unwrap_or_else(|_| "decode-error".to_string());
            format!("{}|{}|{}", shared.digest().hex(), hex(&bytes), back)
        }
        Op::CustomTagThenFormat => {
            let tv: u64 = 610_000 + (shared.digest().data()[0] as u64 % 3);
            let name = format!("verif-tag-{}", tv);
            bc_envelope::with_format_context_mut!(|c: &mut FormatContext| {
                c.tags_mut().insert(dcbor::Tag::new(tv, name.clone()));
            });
            let e2 = Envelope::new(CBOR::to_tagged_value(tv, "payload"));
            format!("{}|{}", e2.format(), e2.diagnostic_annotated())
        }
        Op::HoldRegistryThenFormat => {
            let e2 = Envelope::new("holder").add_assertion(KnownValue::new(12345), KnownValue::new(54321));
            let _ = e2.format(); // this thread has now initialised (or waited for) the format context
            let guard = known_values::KNOWN_VALUES.get();
            let n = guard.as_ref().map(|s| s.name(known_values::NOTE)).unwrap_or_default();
            let text = e2.format();
            drop(guard);
            format!("{}|{}", n, text)
        }
        Op::EarlyFailureSummary => {
            use bc_envelope::extension::expressions::{Response, ResponseBehavior};
            Response::new_early_failure().with_error("no such request").summary()
        }
        Op::ResponseDisplay => {
            use bc_envelope::extension::expressions::{Response, ResponseBehavior};
            Response::new_success(bc_components::ARID::from_data([7u8; 32])).with_result(Function::from(2u64)).to_string()
        }
        Op::RequestSummary => {
            use bc_envelope::extension::expressions::{ExpressionBehavior, Request, RequestBehavior};
            Request::new(Function::from(2u64), bc_components::ARID::from_data([9u8; 32])).with_parameter(Parameter::from(1u64), 5).with_note("a note").summary()
        }
        Op::EventSummary => {
            use bc_envelope::extension::expressions::{Event, EventBehavior};
            Event::<String>::new("happened", bc_components::ARID::from_data([9u8; 32])).with_note("seen").summary()
        }
        Op::ExpressionDisplay => {
            use bc_envelope::extension::expressions::{Expression, ExpressionBehavior};
            Expression::new(Function::new_named("foo")).with_parameter(Parameter::new_named("bar"), "x").to_string()
        }
        Op::RegisterInStoresThenLookup => {
            let p = Parameter::new_known(7003, Some("verifParam".to_string()));
            let f = Function::new_known(7004, Some("verifFn".to_string()));
            let k = KnownValue::new_with_name(7005u64, "verifKnown".to_string());
            {
                let mut g = bc_envelope::extension::expressions::GLOBAL_PARAMETERS.get();
                if let Some(s) = g.as_mut() {
                    s.insert(p.clone());
                }
            }
            {
                let mut g = bc_envelope::extension::expressions::GLOBAL_FUNCTIONS.get();
                if let Some(s) = g.as_mut() {
                    s.insert(f.clone());
                }
            }
            {
                let mut g = known_values::KNOWN_VALUES.get();
                if let Some(s) = g.as_mut() {
                    s.insert(k.clone());
                }
            }
            let pn = bc_envelope::extension::expressions::GLOBAL_PARAMETERS.get().as_ref().and_then(|s| s.assigned_name(&p).map(|x| x.to_string()));
            let fnm = bc_envelope::extension::expressions::GLOBAL_FUNCTIONS.get().as_ref().and_then(|s| s.assigned_name(&f).map(|x| x.to_string()));
            let kn = known_values::KNOWN_VALUES.get().as_ref().and_then(|s| s.assigned_name(&k).map(|x| x.to_string()));
            format!("{:?}|{:?}|{:?}", pn, fnm, kn)
        }
        Op::FormatOptNone => e.format_opt(None),
        Op::RegisterUnnamedThenLookup => {
            use bc_envelope::extension::expressions::{FunctionsStore, ParametersStore, GLOBAL_FUNCTIONS, GLOBAL_PARAMETERS};
            let f = Function::new_known(7104, None);
            let p = Parameter::new_known(7103, None);
            {
                let mut g = GLOBAL_FUNCTIONS.get();
                if let Some(s) = g.as_mut() {
                    s.insert(f.clone());
                }
            }
            {
                let mut g = GLOBAL_PARAMETERS.get();
                if let Some(s) = g.as_mut() {
                    s.insert(p.clone());
                }
            }
            let fname = FunctionsStore::name_for_function(&f, GLOBAL_FUNCTIONS.get().as_ref());
            let pname = ParametersStore::name_for_parameter(&p, GLOBAL_PARAMETERS.get().as_ref());
            format!("{}/{}", fname, pname)
        }
        Op::ConfigureFlatThenFormat => {
            bc_envelope::with_format_context_mut!(|c: &mut FormatContext| {
                *c = c.clone().set_flat(true);
            });
            let text = shared.format();
            bc_envelope::with_format_context_mut!(|c: &mut FormatContext| {
                *c = c.clone().set_flat(false);
            });
            text
        }
        Op::RegisterDcborTagThenFormat => {
            dcbor::with_tags_mut!(|t: &mut dcbor::TagsStore| {
                t.insert(dcbor::Tag::new(7_654_321u64, "verif-dcbor-tag".to_string()));
            });
            let e2 = Envelope::new(CBOR::to_tagged_value(7_654_321u64, "ticket"));
            let text = format!("{}|{}", e2.format(), e2.diagnostic_annotated());
            if text.contains("verif-dcbor-tag") { "named".to_string() } else { "unnamed".to_string() }
        }
        Op::RegisterThenUr => {
            // program-order guarantee: after this thread's own register_tags(), ur_string() works
            bc_envelope::register_tags();
            shared.ur_string()
        }
    }
}

fn hex(b: &[u8]) -> String {
    b.iter().map(|x| format!("{:02x}", x)).collect()
}

/// shuttle keeps the state of `Once` per execution, but the `Option<_>` inside each registry's
/// `Mutex` lives in a process-wide static and would keep the previous execution's value. Clearing
/// it at the end of every execution makes the next one start from genuinely uninitialised
/// registries (Once not run AND data == None), as a fresh process would.
fn reset_registries() {
    *bc_envelope::GLOBAL_FORMAT_CONTEXT.get() = None;
    *known_values::KNOWN_VALUES.get() = None;
    *bc_envelope::extension::expressions::GLOBAL_FUNCTIONS.get() = None;
    *bc_envelope::extension::expressions::GLOBAL_PARAMETERS.get() = None;
    *dcbor::GLOBAL_TAGS.get() = None;
}

// ---------------------------------------------------------------------------------------
// expected texts per model state, produced by the real calls run alone (single-threaded, inside
// a shuttle execution so that the registries start uninitialised)

#[derive(Default, Debug, Clone)]
struct Expected {
    /// (op, envelope index) -> text in S1 / S2
    s1: BTreeMap<(Op, usize), String>,
    s2: BTreeMap<(Op, usize), String>,
    dcbor_s0: Vec<String>,
    dcbor_s1: Vec<String>,
    constants: BTreeMap<Op, String>,
    /// what a constant operation returns while the global context is configured flat by another thread
    constants_flat: BTreeMap<Op, String>,
    /// format() of envelope i while the global context is configured flat, in S1 / S2
    s1_flat: BTreeMap<(Op, usize), String>,
    s2_flat: BTreeMap<(Op, usize), String>,
    /// format() of the shared envelope: hierarchical and flat texts (S1 and S2 variants)
    shared_hier: Vec<String>,
    shared_flat: Vec<String>,
    /// format_opt(None) of envelope i (no state: the same before and after anything is registered)
    fmt_none: Vec<String>,
}

static EXPECTED: OnceLock<Expected> = OnceLock::new();

/// Seventy wrappers around a small envelope (deeper than any 6-bit level counter), and a leaf that is a CBOR map
/// holding a tagged value whose summarizer itself encodes CBOR (a PublicKeys).
fn deep_envelope() -> Envelope {
    let keys = bc_components::PrivateKeyBase::from_data(vec![0x42u8; 32]).schnorr_public_keys();
    let mut map = dcbor::Map::new();
    map.insert(1u64, CBOR::from(keys));
    map.insert(2u64, "two");
    let mut e = Envelope::new("core").add_assertion("holds", CBOR::from(map));
    for _ in 0..70 {
        e = e.wrap_envelope();
    }
    e
}

fn envs() -> Vec<Envelope> {
    vec![probe_envelope(), plain_envelope(), deep_envelope()]
}

/// Run every operation alone (single-threaded, from uninitialised registries). A failure here is already a
/// violation: an operation that cannot even complete on its own.
fn calibrate_checked() -> Result<Expected, String> {
    take_first_panic();
    let r = std::panic::catch_unwind(calibrate);
    let first = take_first_panic();
    match r {
        Ok(ex) => Ok(ex),
        Err(e) => Err(first.unwrap_or_else(|| {
            if let Some(s) = e.downcast_ref::<&str>() {
                s.to_string()
            } else if let Some(s) = e.downcast_ref::<String>() {
                s.clone()
            } else {
                "panic".to_string()
            }
        })),
    }
}

fn calibrate() -> Expected {
    let out: Arc<StdMutex<Expected>> = Arc::new(StdMutex::new(Expected::default()));
    let o2 = out.clone();
    let mut cfg = Config::new();
    cfg.stack_size = 0x400000;
    // shuttle installs its panic hook once per process with the FIRST config it sees, so every Runner of
    // this process uses the same persistence directory
    cfg.failure_persistence = FailurePersistence::File(Some(persist_dir()));
    Runner::new(RandomScheduler::new_from_seed(1, 1), cfg).run(move || {
        let shared = Arc::new(plain_envelope());
        let mut ex = Expected::default();
        let es = envs();
        // S0: nothing initialised
        for e in &es {
            ex.dcbor_s0.push(run_op(Op::DcborDiag, e, &shared));
        }
        ex.constants.insert(Op::KnownValuesLookup, run_op(Op::KnownValuesLookup, &es[0], &shared));
        ex.constants.insert(Op::FunctionsLookup, run_op(Op::FunctionsLookup, &es[0], &shared));
        ex.constants.insert(Op::SharedCodec, run_op(Op::SharedCodec, &es[0], &shared));
        // a tag registered in dcbor's registry BEFORE the format context is first used shows in the notation
        let named = run_op(Op::RegisterDcborTagThenFormat, &es[0], &shared);
        assert!(named == "named", "C20.alone-text: a tag registered in dcbor's global registry before the format context was first used does not show in format() / diagnostic_annotated()");
        let set_flat = |flat: bool| {
            bc_envelope::with_format_context_mut!(|c: &mut FormatContext| {
                *c = c.clone().set_flat(flat);
            });
        };
        // S1: first formatting use initialises the context
        for (i, e) in es.iter().enumerate() {
            for op in OPS.iter().filter(|o| o.formats()) {
                ex.s1.insert((*op, i), run_op(*op, e, &shared));
            }
        }
        ex.shared_hier.push(shared.format());
        for e in &es {
            ex.fmt_none.push(run_op(Op::FormatOptNone, e, &shared));
        }
        set_flat(true);
        for (i, e) in es.iter().enumerate() {
            for op in OPS.iter().filter(|o| o.formats()) {
                ex.s1_flat.insert((*op, i), run_op(*op, e, &shared));
            }
        }
        ex.shared_flat.push(shared.format());
        ex.constants_flat.insert(Op::HoldRegistryThenFormat, run_op(Op::HoldRegistryThenFormat, &es[0], &shared));
        set_flat(false);
        for e in &es {
            ex.dcbor_s1.push(run_op(Op::DcborDiag, e, &shared));
        }
        ex.constants.insert(Op::ContextRead, run_op(Op::ContextRead, &es[0], &shared));
        ex.constants.insert(Op::CustomTagThenFormat, run_op(Op::CustomTagThenFormat, &es[0], &shared));
        ex.constants.insert(Op::HoldRegistryThenFormat, run_op(Op::HoldRegistryThenFormat, &es[0], &shared));
        // S2
        ex.constants.insert(Op::RegisterThenUr, run_op(Op::RegisterThenUr, &es[0], &shared));
        for (i, e) in es.iter().enumerate() {
            for op in OPS.iter().filter(|o| o.formats()) {
                ex.s2.insert((*op, i), run_op(*op, e, &shared));
            }
        }
        ex.shared_hier.push(shared.format());
        for (i, e) in es.iter().enumerate() {
            assert!(run_op(Op::FormatOptNone, e, &shared) == ex.fmt_none[i], "C20.alone-text: format_opt(None), which is given no context, returns one text before register_tags() and another after it");
        }
        set_flat(true);
        for (i, e) in es.iter().enumerate() {
            for op in OPS.iter().filter(|o| o.formats()) {
                ex.s2_flat.insert((*op, i), run_op(*op, e, &shared));
            }
        }
        ex.shared_flat.push(shared.format());
        set_flat(false);
        // configuring flat, formatting and restoring, alone: the flat text
        let alone = run_op(Op::ConfigureFlatThenFormat, &es[0], &shared);
        assert!(ex.shared_flat.contains(&alone), "C20.alone-text: format() under a flat global context does not return the flat text");
        // last, because they leave their entries in the registries
        ex.constants.insert(Op::RegisterUnnamedThenLookup, run_op(Op::RegisterUnnamedThenLookup, &es[0], &shared));
        ex.constants.insert(Op::RegisterInStoresThenLookup, run_op(Op::RegisterInStoresThenLookup, &es[0], &shared));
        *o2.lock().unwrap() = ex;
        reset_registries();
    });
    let ex = out.lock().unwrap().clone();
    ex
}

// ---------------------------------------------------------------------------------------
// one execution

#[derive(Clone, Debug)]
struct Event {
    thread: usize,
    op: Op,
    env: usize,
    inv: u64,
    ret: u64,
    out: String,
}

struct Stats {
    executions: AtomicU64,
    histories: StdMutex<HashSet<u64>>,
    probes: StdMutex<BTreeMap<&'static str, u64>>,
    ops_run: AtomicU64,
    max_threads: AtomicUsize,
    sample: StdMutex<Vec<String>>,
}

static STATS: OnceLock<Stats> = OnceLock::new();
fn stats() -> &'static Stats {
    STATS.get_or_init(|| Stats { executions: AtomicU64::new(0), histories: StdMutex::new(HashSet::new()), probes: StdMutex::new(BTreeMap::new()), ops_run: AtomicU64::new(0), max_threads: AtomicUsize::new(0), sample: StdMutex::new(vec![]) })
}
fn probe(name: &'static str) {
    *stats().probes.lock().unwrap().entry(name).or_insert(0) += 1;
}

#[derive(Clone, Copy)]
struct Workload {
    max_threads: usize,
    max_ops: usize,
}

fn draw(n: u64) -> u64 {
    use shuttle::rand::Rng;
    shuttle::rand::thread_rng().gen_range(0..n)
}

/// The scenario executed under shuttle. Workload choices come from shuttle::rand, so the
/// schedule file alone determines the execution. Panics (with an oracle id) on a violation.
fn scenario(wl: Workload) {
    let expected = EXPECTED.get().expect("calibration");
    let nthreads = 2 + draw((wl.max_threads - 1) as u64) as usize;
    let seq = Arc::new(AtomicU64::new(0));
    let hist: Arc<StdMutex<Vec<Event>>> = Arc::new(StdMutex::new(vec![]));
    let shared = Arc::new(plain_envelope());
    // the plan is drawn up-front on the main task (VERIF_SCHED_OPS=3,7,.. restricts the operation pool: a
    // development aid for focusing the search; the registered checks never set it)
    let pool: Vec<Op> = match std::env::var("VERIF_SCHED_OPS") {
        Ok(v) => v.split(',').filter_map(|x| x.trim().parse::<usize>().ok()).filter(|i| *i < OPS.len()).map(|i| OPS[i]).collect(),
        Err(_) => OPS.to_vec(),
    };
    let pool = if pool.is_empty() { OPS.to_vec() } else { pool };
    let mut plans: Vec<Vec<(Op, usize)>> = vec![];
    for _ in 0..nthreads {
        let k = 1 + draw(wl.max_ops as u64) as usize;
        plans.push((0..k).map(|_| (pool[draw(pool.len() as u64) as usize], [0usize, 1, 0, 1, 2][draw(5) as usize])).collect());
    }
    let mut handles = vec![];
    for (t, plan) in plans.into_iter().enumerate() {
        let seq = seq.clone();
        let hist = hist.clone();
        let shared = shared.clone();
        handles.push(thread::spawn(move || {
            let es = envs();
            for (op, ei) in plan {
                let inv = seq.fetch_add(1, Ordering::SeqCst);
                let out = run_op(op, &es[ei], &shared);
                let ret = seq.fetch_add(1, Ordering::SeqCst);
                hist.lock().unwrap().push(Event { thread: t, op, env: ei, inv, ret, out });
            }
        }));
    }
    for h in handles {
        h.join().expect("C20.completion: a worker thread panicked");
    }
    let events = hist.lock().unwrap().clone();
    if std::env::var("VERIF_SCHED_TRACE").is_ok() {
        let mut v = events.clone();
        v.sort_by_key(|e| e.inv);
        eprintln!("TRACE {}", v.iter().map(|e| format!("t{}:{:?}[{}..{}]len{}", e.thread, e.op, e.inv, e.ret, e.out.len())).collect::<Vec<_>>().join(" "));
    }
    check_history(&events, expected);
    reset_registries();
    // bookkeeping (outside the scheduler's view: std primitives, never contended)
    let st = stats();
    st.executions.fetch_add(1, Ordering::Relaxed);
    st.ops_run.fetch_add(events.len() as u64, Ordering::Relaxed);
    st.max_threads.fetch_max(nthreads, Ordering::Relaxed);
    let mut h = 0xcbf29ce484222325u64;
    let mut by_ret = events.clone();
    by_ret.sort_by_key(|e| e.ret);
    for e in &by_ret {
        let overlapped = events.iter().filter(|o| o.thread != e.thread && o.inv < e.ret && e.inv < o.ret).count() as u64;
        h = (h ^ (e.op as u64 * 131 + e.thread as u64 * 7 + overlapped * 1009 + (e.out.len() as u64 % 97))).wrapping_mul(0x100000001b3);
    }
    st.histories.lock().unwrap().insert(h);
    let mut s = st.sample.lock().unwrap();
    if s.len() < 3 {
        s.push(by_ret.iter().map(|e| format!("t{}:{:?}[{}..{}]", e.thread, e.op, e.inv, e.ret)).collect::<Vec<_>>().join(" "));
    }
}

fn check_history(events: &[Event], ex: &Expected) {
    // classify outputs
    let mut a_ops: Vec<&Event> = vec![]; // formatting call returned its S1 text
    let mut b_ops: Vec<&Event> = vec![]; // formatting call returned its S2 text
    let mut z_ops: Vec<&Event> = vec![]; // dcbor-level diag returned the S0 text
    let mut nz_ops: Vec<&Event> = vec![];
    let flat_windows: Vec<&Event> = events.iter().filter(|o| o.op == Op::ConfigureFlatThenFormat).collect();
    let in_flat_window = |e: &Event| flat_windows.iter().any(|o| o.thread != e.thread && o.inv < e.ret && e.inv < o.ret);
    for e in events {
        if e.op.formats() && in_flat_window(e) && (e.out == ex.s1_flat[&(e.op, e.env)] || e.out == ex.s2_flat[&(e.op, e.env)]) && e.out != ex.s1[&(e.op, e.env)] && e.out != ex.s2[&(e.op, e.env)] {
            // another thread had the global context configured flat while this call ran: the flat text of the same
            // state is what the call returns alone under that configuration
            if ex.s1_flat[&(e.op, e.env)] != ex.s2_flat[&(e.op, e.env)] {
                if e.out == ex.s1_flat[&(e.op, e.env)] {
                    a_ops.push(e);
                } else {
                    b_ops.push(e);
                }
            }
            continue;
        }
        if e.op == Op::ConfigureFlatThenFormat {
            let flat = ex.shared_flat.contains(&e.out);
            let hier = ex.shared_hier.contains(&e.out);
            // its own setting holds for its own format() unless another thread's configure-and-restore came in between
            if !(flat || (hier && in_flat_window(e))) {
                panic!("C20.alone-text: format() on a thread that had just configured the global context as flat returned {}:\n{}", if hier { "the hierarchical text although no other thread changed the setting" } else { "a text it never returns when run alone" }, e.out);
            }
            continue;
        }
        if e.op == Op::RegisterDcborTagThenFormat {
            let initialised_before = events.iter().any(|o| !std::ptr::eq(o, e) && o.op != Op::RegisterDcborTagThenFormat && o.op.initialises() && o.ret < e.inv);
            let another_registration = events.iter().any(|o| !std::ptr::eq(o, e) && o.op == Op::RegisterDcborTagThenFormat);
            let could_be_initialised_by_others = events.iter().any(|o| !std::ptr::eq(o, e) && o.op.initialises() && o.inv < e.ret);
            if e.out == "named" && initialised_before && !another_registration {
                panic!("C20.linearizable: a tag registered after the format context had been initialised shows in the notation");
            }
            if e.out == "unnamed" && !could_be_initialised_by_others {
                panic!("C20.alone-text: a tag registered in dcbor's global registry before the format context was first used does not show in the notation");
            }
            continue;
        }
        if e.op == Op::FormatOptNone {
            if e.out != ex.fmt_none[e.env] {
                panic!("C20.alone-text: format_opt(None) on envelope {} returned a text it never returns when run alone:\n{}\n--- alone:\n{}", e.env, e.out, ex.fmt_none[e.env]);
            }
            continue;
        }
        if e.op == Op::HoldRegistryThenFormat && in_flat_window(e) && Some(&e.out) == ex.constants_flat.get(&e.op) {
            continue;
        }
        if e.op.formats() {
            let t1 = &ex.s1[&(e.op, e.env)];
            let t2 = &ex.s2[&(e.op, e.env)];
            if &e.out == t1 && t1 == t2 {
                // indistinguishable (plain envelope): no constraint
            } else if &e.out == t1 {
                a_ops.push(e);
            } else if &e.out == t2 {
                b_ops.push(e);
            } else {
                panic!("C20.alone-text: {:?} on envelope {} returned a text it never returns when run alone:\n{}\n--- S1 text:\n{}\n--- S2 text:\n{}", e.op, e.env, e.out, t1, t2);
            }
        } else if e.op == Op::DcborDiag {
            if e.out == ex.dcbor_s0[e.env] && ex.dcbor_s0[e.env] != ex.dcbor_s1[e.env] {
                z_ops.push(e);
            } else if e.out == ex.dcbor_s1[e.env] {
                if ex.dcbor_s0[e.env] != ex.dcbor_s1[e.env] {
                    nz_ops.push(e);
                }
            } else {
                panic!("C20.alone-text: dcbor-level annotated diagnostic returned a text it never returns when run alone: {}", e.out);
            }
        } else if let Some(c) = ex.constants.get(&e.op) {
            if &e.out != c {
                let id = if e.op == Op::SharedCodec { "C20.shared" } else { "C20.alone-text" };
                panic!("{}: {:?} returned {:?}, alone it returns {:?}", id, e.op, e.out, c);
            }
        }
    }
    // linearizability against the monotone three-state model.
    // t2 = linearization point of the first register_tags; t1 = of the first initialising op.
    let inf = u64::MAX as f64;
    let window = |set: Vec<&Event>| -> (f64, f64) {
        if set.is_empty() {
            (inf, inf) // the transition never happens
        } else {
            (set.iter().map(|e| e.inv).min().unwrap() as f64, set.iter().map(|e| e.ret).min().unwrap() as f64)
        }
    };
    let regs: Vec<&Event> = events.iter().filter(|e| e.op.registers()).collect();
    let inits: Vec<&Event> = events.iter().filter(|e| e.op.initialises()).collect();
    let (r_lo, r_hi) = window(regs.clone());
    if regs.is_empty() {
        if let Some(b) = b_ops.first() {
            panic!("C20.linearizable: {:?} returned the text of the state after register_tags(), but nobody called register_tags()", b.op);
        }
    } else {
        // need t2 with r_lo < t2 < r_hi, t2 > inv(A) for every A, t2 < ret(B) for every B
        let lo = a_ops.iter().map(|e| e.inv as f64).fold(r_lo, f64::max);
        let hi = b_ops.iter().map(|e| e.ret as f64).fold(r_hi, f64::min);
        if !(lo < hi) {
            panic!(
                "C20.linearizable: no linearization of register_tags explains the formatting results: S1-text ops invoked at {:?}, S2-text ops returned at {:?}, register_tags windows {:?}",
                a_ops.iter().map(|e| e.inv).collect::<Vec<_>>(),
                b_ops.iter().map(|e| e.ret).collect::<Vec<_>>(),
                regs.iter().map(|e| (e.inv, e.ret)).collect::<Vec<_>>()
            );
        }
    }
    let (i_lo, i_hi) = window(inits.clone());
    if inits.is_empty() {
        if let Some(x) = nz_ops.first() {
            panic!("C20.linearizable: dcbor-level diagnostic at [{}..{}] shows registered tags although nothing initialised the format context", x.inv, x.ret);
        }
    } else {
        let lo = z_ops.iter().map(|e| e.inv as f64).fold(i_lo, f64::max);
        let hi = nz_ops.iter().map(|e| e.ret as f64).fold(i_hi, f64::min);
        if !(lo < hi) {
            panic!("C20.linearizable: no linearization of first-use initialisation explains the dcbor-level diagnostics");
        }
    }
    // probes
    let overlapping_inits = inits.iter().filter(|e| inits.iter().any(|o| o.thread != e.thread && o.inv < e.ret && e.inv < o.ret)).count();
    if overlapping_inits >= 2 {
        probe("two-threads-in-first-use-initialisation-window");
    }
    if regs.iter().any(|r| events.iter().any(|o| o.op.formats() && o.thread != r.thread && o.inv < r.ret && r.inv < o.ret)) {
        probe("register_tags-overlaps-format");
    }
    if events.iter().any(|l| matches!(l.op, Op::KnownValuesLookup | Op::FunctionsLookup) && inits.iter().any(|o| o.thread != l.thread && o.inv < l.ret && l.inv < o.ret)) {
        probe("lookup-overlaps-initialisation");
    }
    if !a_ops.is_empty() && !b_ops.is_empty() {
        probe("both-S1-and-S2-texts-observed");
    }
    if !z_ops.is_empty() && !nz_ops.is_empty() {
        probe("both-S0-and-S1-dcbor-texts-observed");
    }
}

// ---------------------------------------------------------------------------------------
// driver

fn verif_dir() -> String {
    std::env::var("VERIF_DIR").unwrap_or_else(|_| "/verif".to_string())
}

/// one schedule directory per process; shuttle numbers the files schedule000.txt, schedule001.txt, ...
fn persist_dir() -> std::path::PathBuf {
    static DIR: OnceLock<std::path::PathBuf> = OnceLock::new();
    DIR.get_or_init(|| {
        let d = std::path::PathBuf::from(format!("{}/replays/C20-schedules-{}", verif_dir(), std::process::id()));
        let _ = std::fs::remove_dir_all(&d);
        std::fs::create_dir_all(&d).ok();
        d
    })
    .clone()
}

fn schedule_count() -> usize {
    std::fs::read_dir(persist_dir()).map(|d| d.filter_map(|e| e.ok()).filter(|e| e.file_name().to_string_lossy().starts_with("schedule")).count()).unwrap_or(0)
}

/// Run one batch of schedules. On failure returns (panic message, path of the schedule file persisted
/// for it: the highest-numbered file, which did not exist before the batch).
fn run_batch(kind: &str, seed: u64, iterations: usize, wl: Workload, _dir: &std::path::Path) -> Result<(), (String, String)> {
    let before = schedule_count();
    let bdir = persist_dir();
    let dir = &bdir;
    let mut cfg = Config::new();
    cfg.stack_size = 0x400000;
    cfg.failure_persistence = FailurePersistence::File(Some(dir.to_path_buf()));
    cfg.max_steps = MaxSteps::FailAfter(2_000_000);
    let r = std::panic::catch_unwind(move || {
        if let Some(d) = kind.strip_prefix("pct") {
            let depth: usize = d.parse().unwrap_or(2);
            Runner::new(PctScheduler::new_from_seed(seed, depth, iterations), cfg).run(move || scenario(wl));
        } else {
            Runner::new(RandomScheduler::new_from_seed(seed, iterations), cfg).run(move || scenario(wl));
        }
    });
    let first = take_first_panic();
    match r {
        Ok(()) => Ok(()),
        Err(e) => {
            let msg = if let Some(f) = first {
                f
            } else if let Some(s) = e.downcast_ref::<&str>() {
                s.to_string()
            } else if let Some(s) = e.downcast_ref::<String>() {
                s.clone()
            } else {
                "panic".to_string()
            };
            let file = if schedule_count() > before { newest_schedule(&bdir).unwrap_or_default() } else { String::new() };
            Err((msg, file))
        }
    }
}

fn newest_schedule(dir: &std::path::Path) -> Option<String> {
    let mut v: Vec<String> = std::fs::read_dir(dir).ok()?.filter_map(|e| e.ok()).map(|e| e.file_name().to_string_lossy().to_string()).filter(|n| n.starts_with("schedule")).collect();
    v.sort(); // schedule000.txt < schedule001.txt < ...
    v.last().map(|n| dir.join(n).to_string_lossy().to_string())
}

fn oracle_of(msg: &str) -> String {
    for id in ["C20.alone-text", "C20.linearizable", "C20.shared", "C20.completion"] {
        if msg.contains(id) {
            return id.to_string();
        }
    }
    // shuttle's own reports: deadlock, re-entrant lock, step bound, poisoned lock surfacing as unwrap panic
    "C20.completion".to_string()
}

/// every panic message of the process, in order (the hook is otherwise silent). The *first* message of a
/// failing execution is the violation; later ones are shuttle's own consequences of unwinding.
static PANICS: StdMutex<Vec<String>> = StdMutex::new(Vec::new());

fn take_first_panic() -> Option<String> {
    let mut p = PANICS.lock().unwrap();
    let first = p.first().cloned();
    p.clear();
    first
}

fn main() {
    std::panic::set_hook(Box::new(|info| {
        let msg = if let Some(s) = info.payload().downcast_ref::<&str>() {
            s.to_string()
        } else if let Some(s) = info.payload().downcast_ref::<String>() {
            s.clone()
        } else {
            "panic".to_string()
        };
        if let Ok(mut p) = PANICS.lock() {
            p.push(msg);
        }
    }));
    let args: Vec<String> = std::env::args().collect();
    let code = match args.get(1).map(|s| s.as_str()) {
        Some("run") => run_check(args.get(3).map(|s| s.as_str()).unwrap_or("quick")),
        Some("replay") => replay(args.get(2).map(|s| s.as_str()).unwrap_or("")),
        _ => {
            eprintln!("usage: schedsim run C20 <tier> | schedsim replay <file>");
            2
        }
    };
    std::process::exit(code);
}

fn workload_for(tier: &str) -> Workload {
    if tier == "thorough" {
        Workload { max_threads: 16, max_ops: 4 }
    } else {
        Workload { max_threads: 8, max_ops: 4 }
    }
}

fn run_check(tier: &str) -> i32 {
    let tier = std::env::var("VERIF_TIER").ok().filter(|t| t == "quick" || t == "thorough").unwrap_or(tier.to_string());
    let seed: u64 = std::env::var("VERIF_SEED").ok().and_then(|s| s.parse().ok()).unwrap_or(20260927);
    let total: usize = std::env::var("VERIF_RUNS").ok().and_then(|s| s.parse().ok()).unwrap_or(if tier == "thorough" { 1_500_000 } else { 24_000 });
    let t0 = Instant::now();
    // watchdog: a lock the scheduler does not see could block for real
    // (judged by progress, not by wall-clock time for the whole batch: a loaded machine is slow, not blocked)
    std::thread::spawn(move || {
        let (mut last, mut idle) = (u64::MAX, 0u64);
        loop {
            std::thread::sleep(std::time::Duration::from_secs(10));
            let now = stats().executions.load(Ordering::Relaxed);
            idle = if now == last { idle + 10 } else { 0 };
            last = now;
            if idle >= 600 {
                break;
            }
        }
        println!("violation: oracle=C20.completion no schedule completed for ten minutes (a real, uncontrolled lock is blocking)");
        println!("VIOLATION property=C20 replay={}/replays/C20-watchdog-{}.json", verif_dir(), seed);
        std::process::exit(1);
    });
    let ex = match calibrate_checked() {
        Ok(ex) => ex,
        Err(msg) => {
            // an operation fails even when run alone on one thread
            let dir = std::path::PathBuf::from(format!("{}/replays", verif_dir()));
            std::fs::create_dir_all(&dir).ok();
            let path = format!("{}/C20-{}-calibration.json", dir.display(), seed);
            let oracle = oracle_of(&msg);
            let j = json!({"version": 1, "engine": "schedsim", "property": "C20", "oracle": oracle, "scheduler": "calibration", "seed": seed, "tier": tier,
                "max_threads": 1, "max_ops": 1, "schedule_file": "", "violation": msg.lines().take(12).collect::<Vec<_>>().join("\n"), "minimised": true});
            std::fs::write(&path, serde_json::to_string_pretty(&j).unwrap()).ok();
            println!("violation: oracle={} scheduler=single-thread (every operation run alone): {}", oracle, msg.lines().next().unwrap_or(""));
            println!("VIOLATION property=C20 replay={}", path);
            let ev = json!({"property_id": "C20", "tier": tier, "seed": seed, "level": "exploration", "wall_s": t0.elapsed().as_secs_f64(), "violations": 1,
                "coverage": {"evaluations": 1, "distinct_nontrivial": 2, "rule": "the single-threaded calibration execution (every operation run alone from uninitialised registries) already failed; no schedules were explored", "samples": [msg.lines().next().unwrap_or("")]}});
            std::fs::create_dir_all(format!("{}/evidence", verif_dir())).ok();
            std::fs::write(format!("{}/evidence/C20.json", verif_dir()), serde_json::to_string_pretty(&ev).unwrap()).ok();
            return 1;
        }
    };
    if ex.s1 == ex.s2 || ex.dcbor_s0 == ex.dcbor_s1 {
        eprintln!("HARNESS-ERROR: calibration cannot tell the model states apart (S1==S2: {}, S0==S1 at dcbor level: {})", ex.s1 == ex.s2, ex.dcbor_s0 == ex.dcbor_s1);
        return 2;
    }
    EXPECTED.set(ex).ok();
    let wl = workload_for(&tier);
    let dir = std::path::PathBuf::from(format!("{}/replays", verif_dir()));
    std::fs::create_dir_all(&dir).ok();
    println!("schedsim property=C20 tier={} VERIF_SEED={} schedules={} threads<={} ops/thread<={}", tier, seed, total, wl.max_threads, wl.max_ops);
    // process-level parallelism is not used: one scheduler, one OS thread at a time; batches alternate schedulers
    let kinds = ["random", "pct1", "pct2", "pct3"];
    let per = (total / kinds.len()).max(1);
    let mut violation: Option<(String, String, String, u64)> = None;
    let mut per_kind: BTreeMap<String, u64> = BTreeMap::new();
    for (i, k) in kinds.iter().enumerate() {
        let before = stats().executions.load(Ordering::Relaxed);
        let s = seed.wrapping_mul(0x9E3779B97F4A7C15).wrapping_add(i as u64);
        if let Err((msg, file)) = run_batch(k, s, per, wl, &dir) {
            violation = Some((k.to_string(), msg, file, s));
        }
        per_kind.insert(k.to_string(), stats().executions.load(Ordering::Relaxed) - before);
        if violation.is_some() {
            break;
        }
    }
    let wall = t0.elapsed().as_secs_f64();
    let mut exit = 0;
    if let Some((kind, msg, sched_file, s)) = &violation {
        let oracle = oracle_of(msg);
        let first = msg.lines().next().unwrap_or("").to_string();
        // minimise the workload: re-search smaller configurations with a bounded number of seeds
        let mut best: Option<(Workload, String, String)> = None;
        'outer: for mt in 2..=wl.max_threads.min(4) {
            for mo in 1..=wl.max_ops.min(2) {
                let small = Workload { max_threads: mt, max_ops: mo };
                for extra in 0..4u64 {
                    if let Err((m2, f2)) = run_batch(kind, s.wrapping_add(1000 + extra), 3000, small, &dir) {
                        if oracle_of(&m2) == oracle {
                            best = Some((small, m2, f2));
                            break 'outer;
                        }
                    }
                }
            }
        }
        let (rwl, rmsg, rfile) = match best {
            Some((w, m, f)) => (w, m, f),
            None => (wl, msg.clone(), sched_file.clone()),
        };
        let path = format!("{}/C20-{}-{}.json", dir.display(), seed, kind);
        let j = json!({
            "version": 1, "engine": "schedsim", "property": "C20", "oracle": oracle, "scheduler": kind, "seed": s, "tier": tier,
            "max_threads": rwl.max_threads, "max_ops": rwl.max_ops, "schedule_file": rfile,
            "violation": rmsg.lines().take(12).collect::<Vec<_>>().join("\n"),
            "minimised": rwl.max_threads < wl.max_threads || rwl.max_ops < wl.max_ops,
            "original_workload": {"max_threads": wl.max_threads, "max_ops": wl.max_ops},
        });
        std::fs::write(&path, serde_json::to_string_pretty(&j).unwrap()).ok();
        // confirm in a fresh process
        let exe = std::env::current_exe().unwrap();
        let out = std::process::Command::new(exe).args(["replay", &path]).output();
        let ok = out.as_ref().map(|o| o.status.code() == Some(1) && String::from_utf8_lossy(&o.stdout).contains("REPRODUCED")).unwrap_or(false);
        if ok {
            println!("violation: oracle={} scheduler={} workload threads<={} ops<={}: {}", oracle, kind, rwl.max_threads, rwl.max_ops, first);
            println!("VIOLATION property=C20 replay={}", path);
            exit = 1;
        } else {
            eprintln!("HARNESS-ERROR: violation {} did not reproduce from {} in a fresh process: {}", oracle, path, first);
            return 2;
        }
    }
    // evidence
    let st = stats();
    let execs = st.executions.load(Ordering::Relaxed);
    let probes: serde_json::Map<String, serde_json::Value> = st.probes.lock().unwrap().iter().map(|(k, v)| (k.to_string(), json!(v))).collect();
    let expected_probes = ["two-threads-in-first-use-initialisation-window", "register_tags-overlaps-format", "lookup-overlaps-initialisation", "both-S1-and-S2-texts-observed", "both-S0-and-S1-dcbor-texts-observed"];
    let gaps: Vec<&str> = expected_probes.iter().filter(|p| !probes.contains_key(**p)).cloned().collect();
    let ev = json!({
        "property_id": "C20", "tier": tier, "seed": seed, "level": "exploration", "wall_s": wall, "violations": if exit == 1 { 1 } else { 0 },
        "coverage": {
            "evaluations": execs,
            "distinct_nontrivial": st.histories.lock().unwrap().len(),
            "rule": "one evaluation = one complete execution of 2..N shuttle threads (N and the 1..4 operations per thread drawn from shuttle::rand) over the real registry code, starting from uninitialised registries, under a seeded Random or PCT(depth 1-3) schedule. distinct = distinct histories by a hash over (operation, thread, number of overlapping foreign operations, output length class) in completion order; every execution has >=2 threads and evaluates the completion, alone-text, linearizability and shared-envelope oracles, so all are non-trivial.",
            "samples": st.sample.lock().unwrap().clone(),
            "schedules_per_scheduler": per_kind,
            "runs_per_hour": (execs as f64 / wall.max(1e-9) * 3600.0) as u64,
            "operations_executed": st.ops_run.load(Ordering::Relaxed),
            "max_threads_in_one_execution": st.max_threads.load(Ordering::Relaxed),
            "sim_time_note": "no clock is involved; the scheduler decides every interleaving at Once/Mutex operations and thread spawn/join",
            "faults_fired": {"sched.random": per_kind.get("random").copied().unwrap_or(0), "sched.pct": per_kind.get("pct1").copied().unwrap_or(0) + per_kind.get("pct2").copied().unwrap_or(0) + per_kind.get("pct3").copied().unwrap_or(0)},
            "probes": probes, "probe_gaps": gaps,
            "components": {
                "real": ["bc-envelope registries and formatting (/repo working tree built with --cfg bc_envelope_verif)", "dcbor (vendored copy, one changed line)", "bc-components"],
                "stub": ["std::sync::{Once,Mutex,MutexGuard} replaced by shuttle's models in the four registry files and in dcbor's tags store", "std::sync::Arc is not modelled (no scheduling points on clone/drop)"],
            },
            "exhaustive": false,
        },
        "assumptions": [
            "shuttle's models of Once/Mutex are faithful to std's (in particular: poisoning, re-entrancy reported as deadlock)",
            "envelopes are immutable after construction and hold no lazy caches, so Arc clone/drop need no scheduling points",
            "a lock added outside the four hooked files and dcbor's tags store is invisible to the scheduler; the wall-clock watchdog reports a batch that does not complete",
            "sampled schedules, not all schedules",
        ],
    });
    std::fs::create_dir_all(format!("{}/evidence", verif_dir())).ok();
    std::fs::write(format!("{}/evidence/C20.json", verif_dir()), serde_json::to_string_pretty(&ev).unwrap()).ok();
    println!("done: {} schedules in {:.1}s, {} distinct histories, exit {}", execs, wall, st.histories.lock().unwrap().len(), exit);
    exit
}

fn replay(path: &str) -> i32 {
    let text = match std::fs::read_to_string(path) {
        Ok(t) => t,
        Err(e) => {
            eprintln!("HARNESS-ERROR: {}: {}", path, e);
            return 2;
        }
    };
    let v: serde_json::Value = match serde_json::from_str(&text) {
        Ok(v) => v,
        Err(e) => {
            eprintln!("HARNESS-ERROR: {}", e);
            return 2;
        }
    };
    let wl = Workload { max_threads: v["max_threads"].as_u64().unwrap_or(8) as usize, max_ops: v["max_ops"].as_u64().unwrap_or(4) as usize };
    let sched = v["schedule_file"].as_str().unwrap_or("").to_string();
    let oracle = v["oracle"].as_str().unwrap_or("").to_string();
    if v["scheduler"].as_str() == Some("calibration") {
        return match calibrate_checked() {
            Ok(_) => {
                println!("NOT-REPRODUCED property=C20 oracle={}", oracle);
                0
            }
            Err(msg) => {
                println!("{}", msg.lines().take(12).collect::<Vec<_>>().join("\n"));
                if oracle_of(&msg) == oracle {
                    println!("REPRODUCED property=C20 oracle={} replay={}", oracle, path);
                    1
                } else {
                    println!("NOT-REPRODUCED property=C20 oracle={} (a different failure: {})", oracle, oracle_of(&msg));
                    0
                }
            }
        };
    }
    let ex = match calibrate_checked() {
        Ok(ex) => ex,
        Err(msg) => {
            println!("{}", msg);
            println!("NOT-REPRODUCED property=C20 oracle={} (calibration failed)", oracle);
            return 0;
        }
    };
    EXPECTED.set(ex).ok();
    take_first_panic();
    let r = std::panic::catch_unwind(move || {
        // (not shuttle::replay_from_file: that uses the default configuration, whose task stacks are too small for
        // the seventy-level envelope; the replay must run under the configuration of the search)
        let scheduler = shuttle::scheduler::ReplayScheduler::new_from_file(&sched).expect("could not load the schedule file");
        let mut cfg = Config::new();
        cfg.stack_size = 0x400000;
        cfg.failure_persistence = FailurePersistence::None;
        Runner::new(scheduler, cfg).run(move || scenario(wl));
    });
    let first = take_first_panic();
    match r {
        Ok(()) => {
            println!("NOT-REPRODUCED property=C20 oracle={}", oracle);
            0
        }
        Err(e) => {
            let msg = if let Some(f) = first {
                f
            } else if let Some(s) = e.downcast_ref::<&str>() {
                s.to_string()
            } else if let Some(s) = e.downcast_ref::<String>() {
                s.clone()
            } else {
                "panic".to_string()
            };
            println!("{}", msg.lines().take(12).collect::<Vec<_>>().join("\n"));
            if oracle_of(&msg) == oracle {
                println!("REPRODUCED property=C20 oracle={} replay={}", oracle, path);
                1
            } else {
                println!("NOT-REPRODUCED property=C20 oracle={} (a different failure: {})", oracle, oracle_of(&msg));
                0
            }
        }
    }
}
