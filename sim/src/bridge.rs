//! The narrow waist between the simulator and the real library: building library values
//! from model values, observing library envelopes through `case()`, and guarded calls.

use crate::cv::{hex, CV};
use crate::model::{dhex, MKind, Obsc, D, M};
use bc_components::{Digest, DigestProvider, SymmetricKey};
use bc_envelope::base::envelope::EnvelopeCase;
use bc_envelope::prelude::*;
use std::collections::{BTreeSet, HashSet};
use std::panic::{catch_unwind, AssertUnwindSafe};

pub fn cv_to_cbor(cv: &CV) -> CBOR {
    match cv {
        CV::U(n) => CBOR::from(*n),
        CV::N(n) => {
            if *n <= i64::MAX as u64 {
                CBOR::from(-1i64 - (*n as i64))
            } else {
                CBORCase::Negative(*n).into()
            }
        }
        CV::B(b) => CBOR::to_byte_string(b),
        CV::T(s) => CBOR::from(s.as_str()),
        CV::A(v) => {
            let items: Vec<CBOR> = v.iter().map(cv_to_cbor).collect();
            CBOR::from(items)
        }
        CV::M(entries) => {
            let mut m = dcbor::Map::new();
            for (k, v) in entries {
                m.insert(cv_to_cbor(k), cv_to_cbor(v));
            }
            CBOR::from(m)
        }
        CV::Tag(t, v) => CBOR::to_tagged_value(*t, cv_to_cbor(v)),
        CV::S(20) => CBOR::from(false),
        CV::S(21) => CBOR::from(true),
        CV::S(_) => CBOR::null(),
        CV::F(bits) => CBOR::from(f64::from_bits(*bits)),
    }
}

/// Build a leaf envelope through the most specific public constructor for the value,
/// so that the typed `From<T> for Envelope` paths are exercised, not just `CBOR`.
pub fn make_leaf_env(cv: &CV, variant: u64) -> Envelope {
    match cv {
        // arrays of integers / of texts handed over as typed vectors (order and repeats are part of the value)
        CV::A(items) if variant % 4 == 3 && !items.is_empty() && items.iter().all(|x| matches!(x, CV::U(_))) => Envelope::new(items.iter().map(|x| if let CV::U(n) = x { *n } else { 0 }).collect::<Vec<u64>>()),
        CV::A(items) if variant % 4 == 3 && !items.is_empty() && items.iter().all(|x| matches!(x, CV::T(_))) => Envelope::new(items.iter().map(|x| if let CV::T(t) = x { t.clone() } else { String::new() }).collect::<Vec<String>>()),
        CV::U(n) if variant % 16 == 6 => Envelope::new_or_null(Some(*n)),
        CV::U(n) if variant % 16 == 14 => Envelope::new_or_none(Some(*n)).unwrap_or_else(Envelope::null),
        CV::S(22) if variant % 4 == 2 => Envelope::new_or_null(None::<u8>),
        CV::U(n) if variant % 2 == 0 => {
            if *n <= u8::MAX as u64 && variant % 4 == 0 {
                Envelope::new(*n as u8)
            } else if *n <= u32::MAX as u64 && variant % 4 == 2 {
                Envelope::new(*n as u32)
            } else {
                Envelope::new(*n)
            }
        }
        CV::N(n) if *n <= i64::MAX as u64 && variant % 2 == 0 => Envelope::new(-1i64 - (*n as i64)),
        CV::T(s) if variant % 2 == 0 => Envelope::new(s.as_str()),
        CV::T(s) if variant % 4 == 1 => Envelope::new(s.clone()),
        CV::B(b) if variant % 2 == 0 => Envelope::new(dcbor::ByteString::from(b.clone())),
        CV::S(20) if variant % 2 == 0 => Envelope::new(false),
        CV::S(21) if variant % 2 == 0 => Envelope::new(true),
        CV::S(22) if variant % 2 == 0 => Envelope::null(),
        CV::F(bits) if variant % 2 == 0 => Envelope::new(f64::from_bits(*bits)),
        _ => Envelope::new(cv_to_cbor(cv)),
    }
}

pub fn digest_of(env: &Envelope) -> D {
    *env.digest().data()
}

pub fn to_lib_digest(d: &D) -> Digest {
    Digest::from_data(*d)
}

pub fn to_lib_set(ds: &BTreeSet<D>) -> HashSet<Digest> {
    ds.iter().map(to_lib_digest).collect()
}

pub fn sym_key(id: u32) -> SymmetricKey {
    let mut k = [0u8; 32];
    let h = crate::model::sha(format!("verif-symkey-{}", id).as_bytes());
    k.copy_from_slice(&h);
    SymmetricKey::from_data(k)
}

/// Run a library call; a panic is reported as Err(message).
pub fn guarded<T>(f: impl FnOnce() -> T) -> Result<T, String> {
    match catch_unwind(AssertUnwindSafe(f)) {
        Ok(v) => Ok(v),
        Err(e) => {
            let msg = if let Some(s) = e.downcast_ref::<&str>() {
                s.to_string()
            } else if let Some(s) = e.downcast_ref::<String>() {
                s.clone()
            } else {
                "panic (non-string payload)".to_string()
            };
            let loc = crate::LAST_PANIC_LOC.with(|l| l.borrow().clone());
            // first line only: anyhow errors may carry a backtrace in their Debug form
            let first = msg.lines().next().unwrap_or("").to_string();
            Err(format!("{} @ {}", first, loc))
        }
    }
}

fn case_name(env: &Envelope) -> &'static str {
    match env.case() {
        EnvelopeCase::Node { .. } => "node",
        EnvelopeCase::Leaf { .. } => "leaf",
        EnvelopeCase::Wrapped { .. } => "wrapped",
        EnvelopeCase::Assertion(_) => "assertion",
        EnvelopeCase::Elided(_) => "elided",
        EnvelopeCase::KnownValue { .. } => "known",
        EnvelopeCase::Encrypted(_) => "encrypted",
        EnvelopeCase::Compressed(_) => "compressed",
    }
}

/// Compare a library envelope with the model tree, position by position: case, overlay,
/// reported digest (library) against spec digest (model), leaf bytes. Observes the library
/// only through `case()` and `digest()`.
pub fn compare_env(env: &Envelope, m: &M, path: &str) -> Result<(), String> {
    let ld = digest_of(env);
    if ld != m.digest() {
        return Err(format!("{}: reported digest {} != spec digest {} (case {})", path, dhex(&ld), dhex(&m.digest()), case_name(env)));
    }
    match m.obsc() {
        Obsc::Clear => {}
        Obsc::Elided => {
            return if matches!(env.case(), EnvelopeCase::Elided(_)) { Ok(()) } else { Err(format!("{}: expected elided, found {}", path, case_name(env))) };
        }
        Obsc::Encrypted(_) => {
            return if matches!(env.case(), EnvelopeCase::Encrypted(_)) { Ok(()) } else { Err(format!("{}: expected encrypted, found {}", path, case_name(env))) };
        }
        Obsc::Compressed => {
            return if matches!(env.case(), EnvelopeCase::Compressed(_)) { Ok(()) } else { Err(format!("{}: expected compressed, found {}", path, case_name(env))) };
        }
        Obsc::Some => {
            return if matches!(env.case(), EnvelopeCase::Elided(_) | EnvelopeCase::Encrypted(_) | EnvelopeCase::Compressed(_)) {
                Ok(())
            } else {
                Err(format!("{}: expected an obscured element, found {}", path, case_name(env)))
            };
        }
    }
    match (env.case(), m.kind()) {
        (EnvelopeCase::Leaf { cbor, .. }, MKind::Leaf(cv)) => {
            let lb = cbor.to_cbor_data();
            let mb = cv.encode();
            if lb != mb {
                return Err(format!("{}: leaf bytes {} != model {}", path, hex(&lb), hex(&mb)));
            }
            Ok(())
        }
        (EnvelopeCase::KnownValue { value, .. }, MKind::Known(n)) => {
            if value.value() != *n {
                return Err(format!("{}: known value {} != {}", path, value.value(), n));
            }
            Ok(())
        }
        (EnvelopeCase::Wrapped { envelope, .. }, MKind::Wrapped(inner)) => compare_env(envelope, inner, &format!("{}/w", path)),
        (EnvelopeCase::Assertion(a), MKind::Assertion(p, o)) => {
            compare_env(&a.predicate(), p, &format!("{}/p", path))?;
            compare_env(&a.object(), o, &format!("{}/o", path))
        }
        (EnvelopeCase::Node { subject, assertions, .. }, MKind::Node { subject: ms, assertions: ma }) => {
            compare_env(subject, ms, &format!("{}/s", path))?;
            if assertions.len() != ma.len() {
                return Err(format!("{}: {} assertions, model has {}", path, assertions.len(), ma.len()));
            }
            for (i, (a, b)) in assertions.iter().zip(ma.iter()).enumerate() {
                compare_env(a, b, &format!("{}/a{}", path, i))?;
            }
            Ok(())
        }
        _ => Err(format!("{}: case {} does not match model kind {}", path, case_name(env), kind_name(m))),
    }
}

pub fn kind_name(m: &M) -> &'static str {
    match m.kind() {
        MKind::Leaf(_) => "leaf",
        MKind::Known(_) => "known",
        MKind::Wrapped(_) => "wrapped",
        MKind::Assertion(..) => "assertion",
        MKind::Node { .. } => "node",
        MKind::Unknown => "unknown",
        MKind::Layer(_) => "layer",
    }
}

/// Structural invariants of C04 observed through `case()` only (no model needed).
pub fn wellformed_by_case(env: &Envelope, path: &str) -> Result<(), String> {
    match env.case() {
        EnvelopeCase::Node { subject, assertions, digest } => {
            if assertions.is_empty() {
                return Err(format!("{}: node without assertions", path));
            }
            for w in assertions.windows(2) {
                let a = digest_of(&w[0]);
                let b = digest_of(&w[1]);
                if a == b {
                    return Err(format!("{}: two assertion elements with equal digest {}", path, dhex(&a)));
                }
                if a > b {
                    return Err(format!("{}: assertion elements out of ascending digest order", path));
                }
            }
            for (i, a) in assertions.iter().enumerate() {
                if !(slot_ok(a)) {
                    return Err(format!("{}/a{}: {} in an assertion slot", path, i, case_name(a)));
                }
            }
            // digest agrees with the one recomputed from children
            let mut parts = vec![digest_of(subject)];
            parts.extend(assertions.iter().map(digest_of));
            let d = crate::model::sha_cat(&parts);
            if d != *digest.data() {
                return Err(format!("{}: node digest does not agree with its children", path));
            }
            wellformed_by_case(subject, &format!("{}/s", path))?;
            for (i, a) in assertions.iter().enumerate() {
                wellformed_by_case(a, &format!("{}/a{}", path, i))?;
            }
            Ok(())
        }
        EnvelopeCase::Wrapped { envelope, digest } => {
            if crate::model::sha_cat(&[digest_of(envelope)]) != *digest.data() {
                return Err(format!("{}: wrapped digest does not agree with inner", path));
            }
            wellformed_by_case(envelope, &format!("{}/w", path))
        }
        EnvelopeCase::Assertion(a) => {
            let d = crate::model::sha_cat(&[digest_of(&a.predicate()), digest_of(&a.object())]);
            if d != digest_of(env) {
                return Err(format!("{}: assertion digest does not agree with predicate/object", path));
            }
            wellformed_by_case(&a.predicate(), &format!("{}/p", path))?;
            wellformed_by_case(&a.object(), &format!("{}/o", path))
        }
        EnvelopeCase::Leaf { cbor, digest } => {
            if crate::model::sha(&cbor.to_cbor_data()) != *digest.data() {
                return Err(format!("{}: leaf digest does not agree with its CBOR", path));
            }
            Ok(())
        }
        _ => Ok(()),
    }
}

fn slot_ok(e: &Envelope) -> bool {
    match e.case() {
        EnvelopeCase::Assertion(_) | EnvelopeCase::Elided(_) | EnvelopeCase::Encrypted(_) | EnvelopeCase::Compressed(_) => true,
        EnvelopeCase::Node { subject, .. } => slot_ok(subject),
        _ => false,
    }
}

/// pre-order list of (digest, case code) as seen through `case()`
pub fn positions_by_case(env: &Envelope) -> Vec<(D, u8)> {
    fn rec(e: &Envelope, out: &mut Vec<(D, u8)>) {
        let code = match e.case() {
            EnvelopeCase::Node { .. } => 5,
            EnvelopeCase::Leaf { .. } => 1,
            EnvelopeCase::Wrapped { .. } => 3,
            EnvelopeCase::Assertion(_) => 4,
            EnvelopeCase::Elided(_) => 8,
            EnvelopeCase::KnownValue { .. } => 2,
            EnvelopeCase::Encrypted(_) => 9,
            EnvelopeCase::Compressed(_) => 10,
        };
        out.push((digest_of(e), code));
        match e.case() {
            EnvelopeCase::Node { subject, assertions, .. } => {
                rec(subject, out);
                for a in assertions {
                    rec(a, out);
                }
            }
            EnvelopeCase::Wrapped { envelope, .. } => rec(envelope, out),
            EnvelopeCase::Assertion(a) => {
                rec(&a.predicate(), out);
                rec(&a.object(), out);
            }
            _ => {}
        }
    }
    let mut out = vec![];
    rec(env, &mut out);
    out
}

pub fn obscure_action(action: Obsc) -> ObscureAction {
    match action {
        Obsc::Encrypted(k) => ObscureAction::Encrypt(sym_key(k)),
        Obsc::Compressed => ObscureAction::Compress,
        _ => ObscureAction::Elide,
    }
}

/// Target-set obscuring through one of the twelve public entry points (set / array / single target,
/// with or without an explicit action, removing or revealing). `entry` picks the family; entry points
/// that cannot express the request (no action parameter for a non-elide action, single-target form for
/// a set that is not a singleton) fall back to the general `*_set_with_action` form.
pub fn elide_via(env: &Envelope, targets: &BTreeSet<D>, revealing: bool, action: Obsc, entry: u64) -> Envelope {
    let set = to_lib_set(targets);
    let act = obscure_action(action);
    let mut digests: Vec<Digest> = targets.iter().map(to_lib_digest).collect();
    // the array forms take a list, not a set: now and then it names a target twice (first or last) or comes reversed
    if digests.len() >= 2 {
        match entry / 12 % 4 {
            1 => digests.insert(1, digests[0].clone()),
            2 => {
                digests.reverse();
                digests.insert(0, digests[0].clone());
            }
            3 => digests.push(digests[0].clone()),
            _ => {}
        }
    }
    let single = targets.len() == 1;
    let providers: Vec<&dyn DigestProvider> = digests.iter().map(|d| d as &dyn DigestProvider).collect();
    let plain = matches!(action, Obsc::Elided);
    match entry % 12 {
        // the six generic entry points that take the mode as a flag
        6 => env.elide_set_with_action(&set, revealing, &act),
        7 => env.elide_array_with_action(&providers, revealing, &act),
        8 if single => env.elide_target_with_action(&digests[0], revealing, &act),
        9 if plain => env.elide_set(&set, revealing),
        10 if plain => env.elide_array(&providers, revealing),
        11 if plain && single => env.elide_target(&digests[0], revealing),
        1 => {
            if revealing {
                env.elide_revealing_array_with_action(&providers, &act)
            } else {
                env.elide_removing_array_with_action(&providers, &act)
            }
        }
        2 if single => {
            if revealing {
                env.elide_revealing_target_with_action(&digests[0], &act)
            } else {
                env.elide_removing_target_with_action(&digests[0], &act)
            }
        }
        3 if plain => {
            if revealing {
                env.elide_revealing_set(&set)
            } else {
                env.elide_removing_set(&set)
            }
        }
        4 if plain => {
            if revealing {
                env.elide_revealing_array(&providers)
            } else {
                env.elide_removing_array(&providers)
            }
        }
        5 if plain && single => {
            if revealing {
                env.elide_revealing_target(&digests[0])
            } else {
                env.elide_removing_target(&digests[0])
            }
        }
        _ => {
            if revealing {
                env.elide_revealing_set_with_action(&set, &act)
            } else {
                env.elide_removing_set_with_action(&set, &act)
            }
        }
    }
}
