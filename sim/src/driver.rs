//! Batch driver: seeded search over scenarios, minimisation, replay files, fresh-process
//! confirmation, known findings, evidence.

use crate::core::{Ctx, Outcome, Scenario, Violation};
use crate::rng::{label_hash, mix, SimRng};
use serde_json::{json, Value};
use std::collections::{BTreeMap, BTreeSet, HashSet};
use std::sync::atomic::{AtomicBool, AtomicU64, Ordering};
use std::sync::Mutex;
use std::time::Instant;

pub struct Family {
    pub name: &'static str,
    pub weight: u64,
    pub gen: fn(&str, &mut SimRng, u64) -> Scenario,
}

pub fn verif_dir() -> String {
    std::env::var("VERIF_DIR").unwrap_or_else(|_| "/verif".to_string())
}

pub fn families(property: &str, tier: &str) -> Vec<Family> {
    let thorough = tier == "thorough";
    match property {
        "C01" => vec![Family { name: "hist", weight: 3, gen: crate::hist::generate }, Family { name: "routes", weight: 1, gen: crate::routes::generate }],
        "C02" => vec![Family { name: "hist", weight: 1, gen: crate::hist::generate }],
        "C04" => vec![Family { name: "hist", weight: 6, gen: crate::hist::generate }, Family { name: "panics", weight: 2, gen: crate::panics::generate }, Family { name: "wire", weight: 1, gen: crate::wire::generate }],
        "C03" => vec![Family { name: "hist", weight: 1, gen: crate::hist::generate }, Family { name: "tap", weight: 2, gen: crate::net::generate_tap }],
        "C05" => vec![Family { name: "hist", weight: 2, gen: crate::hist::generate }, Family { name: "store", weight: 1, gen: crate::net::generate_store }],
        "C07" => vec![Family { name: "hist", weight: 2, gen: crate::hist::generate }, Family { name: "replica", weight: 1, gen: crate::replica::generate }],
        "C06" => vec![
            Family { name: "wire", weight: if thorough { 20 } else { 60 }, gen: crate::wire::generate },
            Family { name: "wire-enum", weight: if thorough { 10 } else { 1 }, gen: crate::wire::generate_enum },
        ],
        "C08" | "C13" => vec![
            Family { name: "tamper", weight: if thorough { 20 } else { 60 }, gen: crate::tamper::generate },
            Family { name: "tamper-enum", weight: if thorough { 6 } else { 1 }, gen: crate::tamper::generate_enum },
            Family { name: "hist", weight: 10, gen: crate::hist::generate },
        ],
        "C09" => vec![Family { name: "sign", weight: 1, gen: crate::parties::generate_sign }],
        "C10" => vec![Family { name: "recip", weight: 1, gen: crate::parties::generate_recip }],
        "C11" => vec![Family { name: "sskr", weight: 1, gen: crate::parties::generate_sskr }],
        "C12" => vec![Family { name: "proof", weight: 1, gen: crate::parties::generate_proof }],
        "C17" => vec![Family { name: "salt", weight: 1, gen: crate::ext::generate_salt }],
        "C18" => vec![Family { name: "expr", weight: 1, gen: crate::ext::generate_expr }],
        "C19" => vec![Family { name: "attach", weight: 1, gen: crate::ext::generate_attach }],
        "C16" => vec![Family { name: "panics", weight: 1, gen: crate::panics::generate }],
        _ => vec![],
    }
}

pub fn dispatch(scn: &Scenario, ctx: &mut Ctx) -> Result<(), String> {
    match scn.family.as_str() {
        "hist" => crate::hist::run(scn, ctx),
        "wire" => crate::wire::run(scn, ctx),
        "replica" => crate::replica::run(scn, ctx),
        "routes" => crate::routes::run(scn, ctx),
        "tap" => crate::net::run_tap(scn, ctx),
        "store" => crate::net::run_store(scn, ctx),
        "tamper" => crate::tamper::run(scn, ctx),
        "panics" => crate::panics::run(scn, ctx),
        "salt" => crate::ext::run_salt(scn, ctx),
        "expr" => crate::ext::run_expr(scn, ctx),
        "attach" => crate::ext::run_attach(scn, ctx),
        "sign" => crate::parties::run_sign(scn, ctx),
        "recip" => crate::parties::run_recip(scn, ctx),
        "sskr" => crate::parties::run_sskr(scn, ctx),
        "proof" => crate::parties::run_proof(scn, ctx),
        f => return Err(format!("unknown scenario family {}", f)),
    }
    Ok(())
}

fn level_of(property: &str) -> &'static str {
    match property {
        "C06" | "C08" | "C11" | "C13" => "fault_enumeration",
        _ => "exploration",
    }
}

fn default_runs(property: &str, tier: &str) -> u64 {
    // sized so that a quick check simulates for roughly 5-15 s on 16 cores
    let quick = match property {
        "C01" | "C02" | "C03" | "C04" | "C05" | "C07" => 300_000,
        "C12" => 400_000,
        "C06" => 300_000,
        "C08" => 200_000,
        "C13" => 200_000,
        "C16" => 300_000,
        "C17" => 300_000,
        "C09" => 40_000,
        "C10" => 60_000,
        "C11" => 40_000,
        "C18" => 15_000,
        "C19" => 20_000,
        _ => 40_000,
    };
    if tier == "thorough" {
        quick * 20
    } else {
        quick
    }
}

pub fn make_scenario(property: &str, tier: &str, master: u64, idx: u64) -> Scenario {
    let run_seed = mix(&[master, label_hash(property), label_hash(tier), idx]);
    let mut r = SimRng::new(run_seed).fork("gen");
    let fams = families(property, tier);
    let total: u64 = fams.iter().map(|f| f.weight).sum();
    let mut x = r.below(total.max(1));
    let mut chosen = &fams[0];
    for f in &fams {
        if x < f.weight {
            chosen = f;
            break;
        }
        x -= f.weight;
    }
    let mut scn = (chosen.gen)(property, &mut r, run_seed);
    scn.cfg.insert("thorough".into(), if tier == "thorough" { 1 } else { 0 });
    scn
}

/// Execute one scenario on the current thread. Pure function of (scenario, code).
pub fn execute(scn: &Scenario, keep_lines: bool) -> Result<Outcome, String> {
    // the hash keys this run starts with (recorded so that a violating run can be replayed with the very same
    // iteration orders), then every other draw of OS randomness made a function of the run seed
    let hash_keys = if crate::osrand::active() { crate::osrand::peek_keys() } else { None };
    crate::osrand::set_stream(mix(&[scn.seed, label_hash("os-randomness")]));
    let mut ctx = Ctx::new(&scn.property, scn.seed, keep_lines);
    ctx.install_entropy();
    let r = std::panic::catch_unwind(std::panic::AssertUnwindSafe(|| dispatch(scn, &mut ctx)));
    bc_rand::verif_set_thread_seed(None);
    let r = match r {
        Ok(Ok(())) => Ok(Outcome::from_ctx(ctx)),
        Ok(Err(e)) => Err(e),
        Err(_) => execute_panicked(scn, keep_lines),
    };
    r.map(|mut o| {
        o.hash_keys = hash_keys;
        o
    })
}

/// Execute on a fresh OS thread whose hash keys are `keys` (replay, minimisation).
pub fn execute_keyed(scn: &Scenario, keep_lines: bool, keys: Option<(u64, u64)>) -> Result<Outcome, String> {
    crate::osrand::on_primed_thread(keys, || execute(scn, keep_lines))
}

fn execute_panicked(scn: &Scenario, keep_lines: bool) -> Result<Outcome, String> {
    {
        {
            let loc = crate::LAST_PANIC_LOC.with(|l| l.borrow().clone());
            if loc.starts_with("src/") {
                // a bug in the simulator itself
                return Err(format!("simulator panicked at {} while running {}", loc, scn.summary()));
            }
            // The LIBRARY panicked while the simulator was merely observing an envelope it had been handed
            // (digest(), to_cbor_data(), subject(), case() ...). Whatever property is being decided, its
            // observation could not be made: reported as a violation of the armed property.
            let mut out = Outcome::from_ctx(Ctx::new(&scn.property, scn.seed, keep_lines));
            out.violations.push(Violation {
                oracle: format!("{}.observation-panics", scn.property),
                step: scn.steps.len(),
                msg: format!("the library panicked at {} while the simulator observed an envelope it had produced or decoded", loc),
                signature: loc,
            });
            out.nontrivial = true;
            Ok(out)
        }
    }
}

// ---------------------------------------------------------------------------------------
// known findings

#[derive(Clone, Debug)]
pub struct Known {
    pub id: String,
    pub property: String,
    pub status: String,
    pub oracle: String,
    pub signature_contains: String,
    pub msg_contains: String,
    pub what: String,
}

pub fn load_known() -> Result<Vec<Known>, String> {
    let path = format!("{}/known_findings.json", verif_dir());
    let text = match std::fs::read_to_string(&path) {
        Ok(t) => t,
        Err(_) => return Ok(vec![]),
    };
    let v: Value = serde_json::from_str(&text).map_err(|e| format!("known_findings.json: {}", e))?;
    let mut out = vec![];
    for e in v.as_array().ok_or("known_findings.json: not an array")? {
        let s = |k: &str| e.get(k).and_then(|x| x.as_str()).unwrap_or("").to_string();
        let m = |k: &str| e.get("match").and_then(|m| m.get(k)).and_then(|x| x.as_str()).unwrap_or("").to_string();
        out.push(Known { id: s("id"), property: s("property"), status: s("status"), oracle: m("oracle"), signature_contains: m("signature_contains"), msg_contains: m("msg_contains"), what: s("what") });
    }
    Ok(out)
}

pub fn match_known<'a>(known: &'a [Known], property: &str, v: &Violation) -> Option<&'a Known> {
    known.iter().find(|k| {
        k.status == "known"
            && k.property == property
            && k.oracle == v.oracle
            && (k.signature_contains.is_empty() || v.signature.contains(&k.signature_contains))
            && (k.msg_contains.is_empty() || v.msg.contains(&k.msg_contains))
            && !(k.signature_contains.is_empty() && k.msg_contains.is_empty())
    })
}

// ---------------------------------------------------------------------------------------
// minimisation

/// Does the candidate still show a violation of the same oracle that is NOT a listed known finding? (Without the
/// second condition the minimiser can drift from a new violation to a known one reported under the same oracle.)
fn still_fails(scn: &Scenario, oracle: &str, budget: &mut u64, keys: Option<(u64, u64)>, known: &[Known]) -> bool {
    if *budget == 0 {
        return false;
    }
    *budget -= 1;
    match execute_keyed(scn, false, keys) {
        Ok(o) => o.violations.iter().any(|v| v.oracle == oracle && match_known(known, &scn.property, v).is_none()),
        Err(_) => false,
    }
}

pub fn minimise(scn: &Scenario, oracle: &str, keys: Option<(u64, u64)>, known: &[Known]) -> (Scenario, u64) {
    let mut budget: u64 = 2000;
    let mut best = scn.clone();
    // ddmin over the step list
    let mut n = 2usize;
    while best.steps.len() >= 2 && budget > 0 {
        let len = best.steps.len();
        let chunk = (len + n - 1) / n;
        let mut reduced = false;
        let mut i = 0;
        while i < len {
            let mut cand = best.clone();
            let end = (i + chunk).min(len);
            cand.steps.drain(i..end);
            if !cand.steps.is_empty() && still_fails(&cand, oracle, &mut budget, keys, known) {
                best = cand;
                n = (n - 1).max(2);
                reduced = true;
                break;
            }
            i += chunk;
        }
        if !reduced {
            if n >= len {
                break;
            }
            n = (n * 2).min(len);
        }
    }
    // per-step argument simplification: try 0, then halving
    let mut changed = true;
    while changed && budget > 0 {
        changed = false;
        for si in 0..best.steps.len() {
            for ai in 0..best.steps[si].a.len() {
                let cur = best.steps[si].a[ai];
                if cur == 0 {
                    continue;
                }
                for cand_v in [0u64, 1, cur / 2, cur & 0xff, cur & 0xffff] {
                    if cand_v >= cur {
                        continue;
                    }
                    let mut cand = best.clone();
                    cand.steps[si].a[ai] = cand_v;
                    if still_fails(&cand, oracle, &mut budget, keys, known) {
                        best = cand;
                        changed = true;
                        break;
                    }
                }
            }
        }
    }
    (best, 2000 - budget)
}

// ---------------------------------------------------------------------------------------
// replay

pub fn write_replay(scn: &Scenario, v: &Violation, tier: &str, master: u64, idx: u64, before: usize, execs: u64, keys: Option<(u64, u64)>) -> Result<String, String> {
    let dir = format!("{}/replays", verif_dir());
    std::fs::create_dir_all(&dir).map_err(|e| e.to_string())?;
    let path = format!("{}/{}-{}-{}-{}.json", dir, scn.property, master, idx, v.oracle.replace('.', "_"));
    let j = json!({
        "version": 1, "engine": "envsim", "property": scn.property, "oracle": v.oracle, "tier": tier,
        "master_seed": master, "run_index": idx,
        "violation": v.msg, "signature": v.signature,
        "steps_before_minimisation": before, "steps_after_minimisation": scn.steps.len(), "minimisation_executions": execs,
        "hash_keys": keys_json(keys),
        "scenario": scn.to_json(),
    });
    std::fs::write(&path, serde_json::to_string_pretty(&j).unwrap()).map_err(|e| e.to_string())?;
    Ok(path)
}

/// std RandomState keys as JSON (decimal strings: u64 does not survive a JSON number).
fn keys_json(keys: Option<(u64, u64)>) -> Value {
    match keys {
        Some((a, b)) => json!([a.to_string(), b.to_string()]),
        None => Value::Null,
    }
}
fn keys_from_json(v: Option<&Value>) -> Option<(u64, u64)> {
    let a = v?.as_array()?;
    Some((a.first()?.as_str()?.parse().ok()?, a.get(1)?.as_str()?.parse().ok()?))
}

/// The hash keys worker `wk` of a batch starts with.
fn worker_keys(master: u64, property: &str, wk: u64) -> (u64, u64) {
    (mix(&[master, label_hash(property), wk, label_hash("k0")]), mix(&[master, label_hash(property), wk, label_hash("k1")]))
}

/// Re-execute, on one thread and in order, the runs that the failing run's worker had executed before it
/// (static striping: worker, worker+W, worker+2W, ...), then the failing run itself.
fn execute_history(property: &str, tier: &str, master: u64, idx: u64, workers: u64, keep_lines: bool) -> Result<Outcome, String> {
    let wk = idx % workers.max(1);
    let _acc = Acc::default(); // the worker creates its accumulator (two hash sets) before its first run

    let mut j = wk;
    while j < idx {
        let scn = make_scenario(property, tier, master, j);
        let _ = execute(&scn, false)?;
        j += workers.max(1);
    }
    let scn = make_scenario(property, tier, master, idx);
    execute(&scn, keep_lines)
}

pub fn replay(path: &str) -> Result<i32, String> {
    let text = std::fs::read_to_string(path).map_err(|e| format!("{}: {}", path, e))?;
    let v: Value = serde_json::from_str(&text).map_err(|e| e.to_string())?;
    let scn = Scenario::from_json(v.get("scenario").ok_or("no scenario")?).ok_or("bad scenario")?;
    let oracle = v.get("oracle").and_then(|x| x.as_str()).unwrap_or("").to_string();
    if let Some(b) = v.get("batch_replay") {
        // the violation depends on state the library keeps PROCESS-wide (a static shared by all worker threads):
        // first all runs up to the failing one in index order on one thread, then, if that does not show it, the
        // original multi-threaded batch (whose thread timing the simulator does not control)
        let workers = b.get("workers").and_then(|x| x.as_u64()).unwrap_or(16);
        let tier = v.get("tier").and_then(|x| x.as_str()).unwrap_or("quick").to_string();
        let master = v.get("master_seed").and_then(|x| x.as_u64()).unwrap_or(0);
        let idx = v.get("run_index").and_then(|x| x.as_u64()).unwrap_or(0);
        let property = scn.property.clone();
        println!("batch replay: runs 0..={} in index order on one thread", idx);
        let (p2, t2, o2) = (property.clone(), tier.clone(), oracle.clone());
        let seq = crate::osrand::on_primed_thread(Some(worker_keys(master, &property, 0)), move || -> Result<Option<(u64, Violation)>, String> {
            if idx > 50_000 {
                return Ok(None); // too long for one thread: go straight to the multi-threaded batch
            }
            for j in 0..=idx {
                let s = make_scenario(&p2, &t2, master, j);
                let o = execute(&s, false)?;
                if let Some(x) = o.violations.into_iter().find(|x| x.oracle == o2) {
                    return Ok(Some((j, x)));
                }
            }
            Ok(None)
        })?;
        let found = match seq {
            Some(x) => Some(x),
            None => {
                println!("batch replay: the same batch again with {} worker threads", workers);
                let known = load_known()?;
                let r = run_batch(&property, &tier, master, idx + 1, workers as usize, false, &known);
                r.acc.violating.into_iter().find(|x| x.1.oracle == oracle).map(|x| (x.0, x.1))
            }
        };
        return Ok(match found {
            Some((j, x)) => {
                println!("oracle={} run={} step={} {}", x.oracle, j, x.step, x.msg);
                println!("REPRODUCED property={} oracle={} replay={}", property, oracle, path);
                1
            }
            None => {
                println!("NOT-REPRODUCED property={} oracle={}", property, oracle);
                0
            }
        });
    }
    let out = if let Some(h) = v.get("history_replay") {
        // the violation depends on what the same OS thread executed before this run (state kept inside the
        // library across operations): replay the worker's whole stripe
        let workers = h.get("workers").and_then(|x| x.as_u64()).unwrap_or(16);
        let tier = v.get("tier").and_then(|x| x.as_str()).unwrap_or("quick").to_string();
        let master = v.get("master_seed").and_then(|x| x.as_u64()).unwrap_or(0);
        let idx = v.get("run_index").and_then(|x| x.as_u64()).unwrap_or(0);
        println!("history replay: runs {}, {}, ... up to {} on one thread", idx % workers, idx % workers + workers, idx);
        let property = scn.property.clone();
        crate::osrand::on_primed_thread(Some(worker_keys(master, &property, idx % workers.max(1))), || execute_history(&property, &tier, master, idx, workers, true))?
    } else {
        execute_keyed(&scn, true, keys_from_json(v.get("hash_keys")))?
    };
    if let Some(lines) = &out.trace_lines {
        for l in lines {
            println!("  {}", l);
        }
    }
    println!("trace-hash {}", out.trace_hash);
    for viol in &out.violations {
        println!("oracle={} step={} {}", viol.oracle, viol.step, viol.msg);
    }
    if out.violations.iter().any(|x| x.oracle == oracle) {
        println!("REPRODUCED property={} oracle={} replay={}", scn.property, oracle, path);
        Ok(1)
    } else {
        println!("NOT-REPRODUCED property={} oracle={}", scn.property, oracle);
        Ok(0)
    }
}

/// Replay in a fresh process. A violation that depends on the library's hash-iteration order (std
/// RandomState, which the simulator does not control) reproduces with probability < 1 per process, so up
/// to five fresh processes are tried; returns how many were needed.
fn confirm_in_fresh_process(path: &str, oracle: &str) -> Result<Option<u32>, String> {
    let exe = std::env::current_exe().map_err(|e| e.to_string())?;
    for attempt in 1..=5u32 {
        let out = std::process::Command::new(&exe).args(["replay", path]).output().map_err(|e| e.to_string())?;
        let so = String::from_utf8_lossy(&out.stdout);
        if out.status.code() == Some(1) && so.contains("REPRODUCED property=") && so.contains(&format!("oracle={}", oracle)) {
            return Ok(Some(attempt));
        }
    }
    Ok(None)
}

// ---------------------------------------------------------------------------------------
// batch

#[derive(Default)]
struct Acc {
    evaluations: u64,
    nontrivial_keys: HashSet<u64>,
    shapes: HashSet<u64>,
    probes: BTreeMap<&'static str, u64>,
    faults: BTreeMap<&'static str, u64>,
    oracle_evals: u64,
    sim_ticks: u64,
    executed_steps: u64,
    violating: Vec<(u64, Violation, Option<(u64, u64)>)>,
    known_hits: BTreeMap<String, (u64, String)>,
    samples: BTreeMap<u64, String>,
    hashes: Vec<(u64, String)>,
    per_family: BTreeMap<String, u64>,
    harness_errors: Vec<String>,
}

fn opseq_hash(scn: &Scenario) -> u64 {
    let mut h = 0xcbf29ce484222325u64;
    for s in &scn.steps {
        h = (h ^ label_hash(&s.op)).wrapping_mul(0x100000001b3);
    }
    h ^ label_hash(&scn.family)
}

pub struct BatchResult {
    acc: Acc,
    wall_s: f64,
    runs: u64,
}

fn run_batch(property: &str, tier: &str, master: u64, runs: u64, workers: usize, keep_hashes: bool, known: &[Known]) -> BatchResult {
    // Static striping: worker k executes the runs k, k+W, k+2W, ... in that order on its own OS thread. Which
    // runs share a thread (and hence any thread-local or allocation state inside the library) is therefore a
    // function of (index, W) alone, and a violation that depends on what the thread did before can be replayed
    // by re-executing the worker's stripe up to the failing index ("history replay").
    // `stop_at` = lowest violating index seen so far: every worker finishes all of its runs up to that index, so
    // the lowest-index violation of the batch is always found, whatever the thread timing.
    let stop_at = AtomicU64::new(u64::MAX);
    let stop = AtomicBool::new(false);
    let total = Mutex::new(Acc::default());
    let t0 = Instant::now();
    let nworkers = workers.max(1) as u64;
    std::thread::scope(|s| {
        for wk in 0..nworkers {
            let stop_at = &stop_at;
            let stop = &stop;
            let total = &total;
            std::thread::Builder::new().stack_size(crate::osrand::STACK).spawn_scoped(s, move || {
                if crate::osrand::active() {
                    let (k0, k1) = worker_keys(master, property, wk);
                    crate::osrand::prime_thread(k0, k1);
                }
                let mut acc = Acc::default();
                let mut j: u64 = 0;
                loop {
                    let idx = wk + j * nworkers;
                    j += 1;
                    if idx >= runs || idx > stop_at.load(Ordering::Relaxed) {
                        break;
                    }
                    if stop.load(Ordering::Relaxed) && stop_at.load(Ordering::Relaxed) == u64::MAX {
                        break; // a harness error stops everything
                    }
                    let scn = make_scenario(property, tier, master, idx);
                    match execute(&scn, false) {
                        Ok(o) => {
                            acc.evaluations += 1;
                            *acc.per_family.entry(scn.family.clone()).or_insert(0) += 1;
                            acc.oracle_evals += o.oracle_evals;
                            acc.sim_ticks += o.sim_ticks;
                            acc.executed_steps += o.executed;
                            for (k, v) in &o.probes {
                                *acc.probes.entry(k).or_insert(0) += v;
                            }
                            let mut fh = 0u64;
                            for (k, v) in &o.faults {
                                *acc.faults.entry(k).or_insert(0) += v;
                                fh = fh.wrapping_mul(31) ^ label_hash(k);
                            }
                            if o.nontrivial {
                                acc.nontrivial_keys.insert(mix(&[opseq_hash(&scn), fh, o.shape]));
                                acc.shapes.insert(o.shape);
                                if idx < 3 || (acc.samples.len() < 3 && idx % 997 == 0) {
                                    acc.samples.insert(idx, scn.summary());
                                }
                            }
                            if keep_hashes {
                                acc.hashes.push((idx, o.trace_hash.clone()));
                            }
                            let run_keys = o.hash_keys;
                            for v in o.violations {
                                if let Some(k) = match_known(known, property, &v) {
                                    acc.known_hits.entry(k.id.clone()).or_insert((idx, v.msg.clone()));
                                } else {
                                    acc.violating.push((idx, v, run_keys));
                                    stop_at.fetch_min(idx, Ordering::Relaxed);
                                }
                            }
                        }
                        Err(e) => {
                            acc.harness_errors.push(e);
                            stop.store(true, Ordering::Relaxed);
                        }
                    }
                }
                let mut t = total.lock().unwrap();
                t.evaluations += acc.evaluations;
                t.nontrivial_keys.extend(acc.nontrivial_keys);
                t.shapes.extend(acc.shapes);
                for (k, v) in acc.probes {
                    *t.probes.entry(k).or_insert(0) += v;
                }
                for (k, v) in acc.faults {
                    *t.faults.entry(k).or_insert(0) += v;
                }
                for (k, v) in acc.per_family {
                    *t.per_family.entry(k).or_insert(0) += v;
                }
                t.oracle_evals += acc.oracle_evals;
                t.sim_ticks += acc.sim_ticks;
                t.executed_steps += acc.executed_steps;
                t.violating.extend(acc.violating);
                for (k, v) in acc.known_hits {
                    let e = t.known_hits.entry(k).or_insert(v.clone());
                    if v.0 < e.0 {
                        *e = v;
                    }
                }
                t.samples.extend(acc.samples);
                t.hashes.extend(acc.hashes);
                t.harness_errors.extend(acc.harness_errors);
            }).expect("spawn worker");
        }
    });
    let mut acc = total.into_inner().unwrap();
    acc.violating.sort_by_key(|x| x.0);
    acc.hashes.sort();
    BatchResult { acc, wall_s: t0.elapsed().as_secs_f64(), runs }
}

fn workers() -> usize {
    std::env::var("VERIF_WORKERS").ok().and_then(|s| s.parse().ok()).unwrap_or_else(|| std::thread::available_parallelism().map(|n| n.get()).unwrap_or(8).min(16))
}

pub fn master_seed() -> u64 {
    std::env::var("VERIF_SEED").ok().and_then(|s| s.parse::<u64>().ok()).unwrap_or(20260927)
}

pub fn main(args: &[String]) -> Result<i32, String> {
    crate::osrand::selfcheck();
    match args.get(1).map(|s| s.as_str()) {
        Some("run") => {
            let property = args.get(2).ok_or("usage: envsim run <Cxx> <tier>")?;
            let tier = args.get(3).map(|s| s.as_str()).unwrap_or("quick");
            let tier = std::env::var("VERIF_TIER").ok().filter(|t| t == "quick" || t == "thorough").unwrap_or(tier.to_string());
            run_check(property, &tier)
        }
        Some("callprobe") => Ok(crate::panics::callprobe_main(args)),
        Some("replay") => replay(args.get(2).ok_or("usage: envsim replay <file>")?),
        Some("hashes") => {
            let property = args.get(2).ok_or("usage")?;
            let tier = args.get(3).ok_or("usage")?;
            let n: u64 = args.get(4).and_then(|s| s.parse().ok()).ok_or("usage")?;
            let w: usize = args.get(5).and_then(|s| s.parse().ok()).ok_or("usage")?;
            let known = load_known()?;
            let r = run_batch(property, tier, master_seed(), n, w, true, &known);
            if !r.acc.harness_errors.is_empty() {
                return Err(r.acc.harness_errors[0].clone());
            }
            for (i, h) in &r.acc.hashes {
                println!("{} {}", i, h);
            }
            Ok(0)
        }
        Some("show") => {
            let property = args.get(2).ok_or("usage")?;
            let tier = args.get(3).ok_or("usage")?;
            let idx: u64 = args.get(4).and_then(|s| s.parse().ok()).ok_or("usage")?;
            let scn = make_scenario(property, tier, master_seed(), idx);
            println!("{}", serde_json::to_string_pretty(&scn.to_json()).unwrap());
            let o = execute(&scn, true)?;
            for l in o.trace_lines.unwrap_or_default() {
                println!("  {}", l);
            }
            println!("trace-hash {} oracle-evals {} probes {:?} faults {:?}", o.trace_hash, o.oracle_evals, o.probes, o.faults);
            for v in &o.violations {
                println!("VIOL {} step {} {}", v.oracle, v.step, v.msg);
            }
            Ok(0)
        }
        _ => Err("usage: envsim run|replay|hashes|show …".to_string()),
    }
}

fn run_check(property: &str, tier: &str) -> Result<i32, String> {
    if families(property, tier).is_empty() {
        return Err(format!("no scenario family serves property {}", property));
    }
    crate::cv_selfcheck()?;
    if !crate::osrand::active() {
        println!("note: the OS-randomness seam could not be installed in this build; hash-iteration order stays with the kernel");
    }
    let master = master_seed();
    let runs: u64 = std::env::var("VERIF_RUNS").ok().and_then(|s| s.parse().ok()).unwrap_or_else(|| default_runs(property, tier));
    let known = load_known()?;
    println!("envsim property={} tier={} VERIF_SEED={} runs={} workers={}", property, tier, master, runs, workers());
    let r = run_batch(property, tier, master, runs, workers(), false, &known);
    if !r.acc.harness_errors.is_empty() {
        return Err(r.acc.harness_errors[0].clone());
    }
    // determinism self-check: first runs again, on another thread, single worker
    let nself = runs.min(300);
    let a = run_batch(property, tier, master, nself, 1, true, &known);
    let b = run_batch(property, tier, master, nself, 3, true, &known);
    let determinism_ok = a.acc.hashes == b.acc.hashes && !a.acc.hashes.is_empty();
    if !determinism_ok && r.acc.violating.is_empty() && a.acc.violating.is_empty() && b.acc.violating.is_empty() {
        return Err("determinism self-check failed: the same seeds produced different traces on different threads".to_string());
    }

    let mut exit = 0;
    let mut new_violations = 0;
    let mut reported: BTreeSet<String> = BTreeSet::new();
    for (id, (idx, msg)) in &r.acc.known_hits {
        let k = known.iter().find(|k| &k.id == id).unwrap();
        println!("KNOWN-FINDING: property={} {} [{}; first at run {}: {}]", property, k.what, k.id, idx, msg);
    }
    // report the violation(s) of the lowest run index, one per oracle
    if let Some((first_idx, _, _)) = r.acc.violating.first().cloned() {
        for (idx, v, keys) in r.acc.violating.iter().filter(|x| x.0 == first_idx) {
            let keys = *keys;
            if !reported.insert(v.oracle.clone()) {
                continue;
            }
            let scn = make_scenario(property, tier, master, *idx);
            let (min, execs) = minimise(&scn, &v.oracle, keys, &known);
            let mo = execute_keyed(&min, false, keys)?;
            // the violation as the minimised scenario shows it (never a listed known finding: the batch has stopped
            // for this one, and `v` itself is not listed)
            let (min, mv) = match mo.violations.iter().find(|x| x.oracle == v.oracle && match_known(&known, property, x).is_none()) {
                Some(x) => (min, x.clone()),
                None => (scn.clone(), v.clone()),
            };
            let path = write_replay(&min, &mv, tier, master, *idx, scn.steps.len(), execs, keys)?;
            let mut confirmed = confirm_in_fresh_process(&path, &mv.oracle)?;
            let mut reported = (min.clone(), mv.clone(), path.clone());
            if confirmed.is_none() {
                // fall back to the un-minimised scenario (minimisation under hash-order nondeterminism can over-shrink)
                let raw_path = write_replay(&scn, v, tier, master, *idx + 1_000_000_000, scn.steps.len(), 0, keys)?;
                confirmed = confirm_in_fresh_process(&raw_path, &v.oracle)?;
                reported = (scn.clone(), v.clone(), raw_path);
            }
            match confirmed {
                Some(attempts) => {
                    let (rs, rv, rp) = reported;
                    println!("violation: oracle={} run={} steps {}->{}: {}", rv.oracle, idx, scn.steps.len(), rs.steps.len(), rv.msg);
                    if attempts > 1 {
                        println!("note: the violation depends on hash-iteration order inside the library; it reproduced in fresh process #{}", attempts);
                    }
                    println!("VIOLATION property={} replay={}", property, rp);
                    new_violations += 1;
                    exit = 1;
                }
                None => {
                    // last resort: the violation may depend on what the same worker thread executed earlier
                    // (state that the library keeps across operations). Replay the worker's stripe.
                    let hist_path = format!("{}/replays/{}-{}-{}-{}-history.json", verif_dir(), property, master, idx, v.oracle.replace('.', "_"));
                    let j = json!({
                        "version": 1, "engine": "envsim", "property": property, "oracle": v.oracle, "tier": tier,
                        "master_seed": master, "run_index": idx, "violation": v.msg, "signature": v.signature,
                        "history_replay": {"workers": workers() as u64, "worker": idx % workers() as u64,
                            "why": "the run fails only after the runs that preceded it on the same OS thread: the library carries state from one operation to the next"},
                        "scenario": scn.to_json(),
                    });
                    std::fs::write(&hist_path, serde_json::to_string_pretty(&j).unwrap()).map_err(|e| e.to_string())?;
                    match confirm_in_fresh_process(&hist_path, &v.oracle)? {
                        Some(_) => {
                            println!("violation: oracle={} run={} (reproduces only after the {} runs that preceded it on the same worker thread): {}", v.oracle, idx, idx / workers() as u64, v.msg);
                            println!("VIOLATION property={} replay={}", property, hist_path);
                            new_violations += 1;
                            exit = 1;
                        }
                        None => {
                            // last of all: state shared by all worker threads of the process
                            let batch_path = format!("{}/replays/{}-{}-{}-{}-batch.json", verif_dir(), property, master, idx, v.oracle.replace('.', "_"));
                            let j = json!({
                                "version": 1, "engine": "envsim", "property": property, "oracle": v.oracle, "tier": tier,
                                "master_seed": master, "run_index": idx, "violation": v.msg, "signature": v.signature,
                                "batch_replay": {"workers": workers() as u64,
                                    "why": "the run fails only in a process that has executed other runs before it, on whatever thread: the library keeps process-wide state"},
                                "scenario": scn.to_json(),
                            });
                            std::fs::write(&batch_path, serde_json::to_string_pretty(&j).unwrap()).map_err(|e| e.to_string())?;
                            let again = confirm_in_fresh_process(&batch_path, &v.oracle)?;
                            println!("violation: oracle={} run={} (not reproducible from the run alone nor from its worker's history: process-wide state inside the library): {}", v.oracle, idx, v.msg);
                            if again.is_none() {
                                println!("note: observed in this process against the reference model; the batch replay did not show it again in five fresh processes (it depends on the timing of the worker threads)");
                            }
                            println!("VIOLATION property={} replay={}", property, batch_path);
                            new_violations += 1;
                            exit = 1;
                        }
                    }
                }
            }
        }
    }

    write_evidence(property, tier, master, &r, determinism_ok, new_violations)?;
    println!(
        "done: {} runs in {:.1}s ({:.0} runs/h), {} distinct non-trivial, {} oracle evaluations, exit {}",
        r.acc.evaluations,
        r.wall_s,
        r.acc.evaluations as f64 / r.wall_s.max(1e-9) * 3600.0,
        r.acc.nontrivial_keys.len(),
        r.acc.oracle_evals,
        exit
    );
    Ok(exit)
}

fn write_evidence(property: &str, tier: &str, master: u64, r: &BatchResult, determinism_ok: bool, violations: u64) -> Result<(), String> {
    let dir = format!("{}/evidence", verif_dir());
    std::fs::create_dir_all(&dir).map_err(|e| e.to_string())?;
    let acc = &r.acc;
    let probes: serde_json::Map<String, Value> = acc.probes.iter().map(|(k, v)| (k.to_string(), json!(v))).collect();
    let faults: serde_json::Map<String, Value> = acc.faults.iter().map(|(k, v)| (k.to_string(), json!(v))).collect();
    let expected_probes = crate::expected_probes(property);
    let gaps: Vec<&str> = expected_probes.iter().filter(|p| !acc.probes.contains_key(*p)).cloned().collect();
    let samples: Vec<Value> = acc.samples.values().take(3).map(|s| json!(s)).collect();
    let j = json!({
        "property_id": property,
        "tier": tier,
        "seed": master,
        "level": level_of(property),
        "wall_s": r.wall_s,
        "violations": violations,
        "coverage": {
            "evaluations": acc.evaluations,
            "distinct_nontrivial": acc.nontrivial_keys.len(),
            "rule": "one evaluation = one simulated run: a seeded scenario (explicit step/fault list drawn swarm-style from the run seed) executed against the real library and the reference model in lock-step. A run is non-trivial if at least one oracle of this property was evaluated with a non-vacuous precondition; distinct = distinct (operation-name sequence, fired-fault-kind set, hash of all model shapes reached) triples among non-trivial runs, counted with a hash set.",
            "samples": samples,
            "runs_requested": r.runs,
            "runs_per_hour": (acc.evaluations as f64 / r.wall_s.max(1e-9) * 3600.0) as u64,
            "oracle_evaluations": acc.oracle_evals,
            "sim_ticks": acc.sim_ticks,
            "sim_time_note": "the library reads no clock; a tick is one simulator event (operation, delivery, fault). Simulated time only orders events.",
            "executed_steps": acc.executed_steps,
            "distinct_states": acc.shapes.len(),
            "distinct_states_measure": "distinct hashes over the sequence of model-shape fingerprints (case and overlay at every position of every document) reached in a run",
            "faults_fired": faults,
            "probes": probes,
            "probe_gaps": gaps,
            "runs_per_family": acc.per_family,
            "known_findings_hit": acc.known_hits.keys().collect::<Vec<_>>(),
            "determinism_selfcheck": { "runs": r.runs.min(300), "worker_counts": [1, 3], "identical_trace_hashes": determinism_ok },
            "components": {
                "real": ["bc-envelope (/repo working tree, all default features + multithreaded)", "dcbor", "bc-components", "bc-crypto", "sskr", "bc-shamir", "bc-ur", "bc-rand range/rejection logic"],
                "stub": ["bc-rand entropy source (per-thread seeded StdRng through the /verif/vendor/bc-rand seam)", "kernel getrandom (interposed symbol: seeded std hash keys per worker thread, seeded stream per run for pqcrypto)", "transport/storage/clock: simulator-owned in-memory structures"],
            },
            "exhaustive": false,
        },
        "assumptions": [
            "rustc/std, the sha2 crate and the simulator's own CBOR writer/reader and digest model are correct (the model writer is cross-checked against hand-derived encodings at start-up)",
            "AEAD/signature/KEM primitives in bc-crypto are trusted",
            if crate::osrand::active() { "hash-iteration order (std RandomState keys) and pqcrypto randomness come from the simulator through the interposed getrandom symbol: each worker thread starts from keys derived from (seed, property, worker), a violating run records the keys it started with and its replay starts a fresh thread primed with them; the getrandom 0.2 crate (raw system call) is reachable only through bc-rand, which has its own seam" } else { "hash-iteration order (std RandomState) and pqcrypto randomness are not under the simulator's control in this build; no byte derived from them enters a trace hash" },
            "a clean batch is evidence over the sampled seeds and bounds stated here, not a proof",
        ],
    });
    let path = format!("{}/{}.json", dir, property);
    std::fs::write(&path, serde_json::to_string_pretty(&j).unwrap()).map_err(|e| e.to_string())
}
