//! C08 / C13 families: an owner encrypts or compresses, the element is stored or sent, faults
//! hit it (field tampering, bit flips, wrong key, a Byzantine key holder who mis-declares the
//! digest), a reader decrypts / uncompresses.

use crate::bridge::*;
use crate::core::{Ctx, Scenario, Step};
use crate::cv::{hex, Body, Item, CV};
use crate::hist::{self, StepResult, World};
use crate::model::*;
use crate::rng::SimRng;
use crate::wire::{decode_guarded, sites_of, Decoded, SiteKind};
use bc_components::{Compressed, DigestProvider, Nonce};
use bc_envelope::prelude::*;

fn at_mut<'a>(item: &'a mut Item, path: &[usize]) -> Option<&'a mut Item> {
    let mut cur = item;
    for &i in path {
        cur = cur.items_mut()?.get_mut(i)?;
    }
    Some(cur)
}

/// path of the subject-position element in an encoded envelope (top tag 200 → [0], or [0,0] for a node)
fn subject_path(top: &Item) -> Vec<usize> {
    let mut p = vec![0];
    let mut cur = &top.items()[0];
    while cur.major == 4 && !cur.items().is_empty() {
        p.push(0);
        cur = &cur.items()[0];
    }
    p
}

/// Flip one bit inside field `field` of the obscured element at `path`.
/// Encrypted: 0 ciphertext, 1 nonce, 2 auth, 3 aad (declared digest).
/// Compressed: 0 checksum, 1 size, 2 data, 3 digest.
fn tamper_field(bytes: &[u8], path: &[usize], field: u64, pos: u64, how: u64) -> Option<(Vec<u8>, &'static str)> {
    let mut top = Item::decode(bytes).ok()?;
    let el = at_mut(&mut top, path)?;
    if el.major != 6 {
        return None;
    }
    let is_enc = el.arg == TAG_ENCRYPTED;
    let is_comp = el.arg == TAG_COMPRESSED;
    if !is_enc && !is_comp {
        return None;
    }
    let arr = el.items_mut()?.get_mut(0)?;
    let v = arr.items_mut()?;
    let f = (field % 4) as usize;
    let target = v.get_mut(f)?;
    let name: &'static str = match (is_enc, f) {
        (true, 0) => "field.tamper.ciphertext",
        (true, 1) => "field.tamper.nonce",
        (true, 2) => "field.tamper.auth",
        (true, _) => "field.tamper.declared-digest",
        (false, 0) => "field.tamper.checksum",
        (false, 1) => "field.tamper.size",
        (false, 2) => "field.tamper.data",
        (false, _) => "field.tamper.declared-digest",
    };
    match target.major {
        2 => {
            if let Body::Bytes(b) = &mut target.body {
                if b.is_empty() {
                    b.push(1);
                    target.fix_count();
                } else {
                    // for the aad of an encrypted element keep the CBOR head of the tagged digest intact in half the cases
                    let n = b.len() as u64;
                    let skip = if is_enc && f == 3 && how % 2 == 0 && n > 5 { 5 } else { 0 };
                    let bit = skip * 8 + pos % ((n - skip) * 8);
                    b[(bit / 8) as usize] ^= 1 << (bit % 8);
                }
            }
        }
        0 => {
            // integer field: flip a low bit, or make it a different valid integer
            let old = target.arg;
            let new = match how % 3 {
                0 => old ^ (1 << (pos % 16)),
                1 => old.wrapping_add(1),
                _ => old / 2,
            };
            if new == old {
                return None;
            }
            *target = Item::uint(new);
        }
        6 => {
            // compressed digest: tagged bytes
            let inner = target.items_mut()?.get_mut(0)?;
            if let Body::Bytes(b) = &mut inner.body {
                if b.is_empty() {
                    return None;
                }
                let n = b.len() as u64;
                let bit = pos % (n * 8);
                b[(bit / 8) as usize] ^= 1 << (bit % 8);
            }
        }
        _ => return None,
    }
    Some((top.encode(), name))
}

fn identical_bytes(a: &Envelope, b: &Envelope) -> bool {
    a.to_cbor_data() == b.to_cbor_data()
}

/// decrypt the delivered bytes and apply the C08 fault oracle
fn check_decrypt_after_fault(ctx: &mut Ctx, delivered: &[u8], key: u32, whole: bool, original: &Envelope, fault: &'static str, inside_element: bool) {
    ctx.fault(fault);
    ctx.checked();
    let env2 = match decode_guarded(delivered) {
        Decoded::Ok(e) => e,
        Decoded::Err => {
            ctx.probe("tampered-rejected-at-decode");
            ctx.t(&format!("{} -> decode err", fault));
            return;
        }
        Decoded::Panic(p) => {
            // "fails with an error instead of returning an envelope": a panic is neither
            ctx.violate_sig("C08.fault-panics", format!("after {} the decoder panicked instead of failing with an error: {}", fault, p), p);
            return;
        }
    };
    if let Err(p) = guarded(|| digest_of(&env2)) {
        ctx.violate_sig("C08.fault-panics", format!("after {} the decoder returned an envelope that panics when asked for its digest: {}", fault, p), p);
        return;
    }
    let k = sym_key(key);
    let r = guarded(|| if whole { env2.decrypt(&k) } else { env2.decrypt_subject(&k) });
    match r {
        Err(p) => ctx.violate_sig("C08.fault-panics", format!("decrypt panicked after {} instead of failing with an error: {}", fault, p), p),
        Ok(Err(_)) => {
            ctx.probe("tampered-rejected-at-decrypt");
            ctx.t(&format!("{} -> decrypt err", fault));
        }
        Ok(Ok(x)) => {
            ctx.probe("tampered-still-decrypts");
            if inside_element {
                ctx.violate("C08.tamper", format!("decryption succeeded after {} of the encrypted element", fault));
            } else {
                // a fault outside the encrypted element may change a sibling, never what the ciphertext opens to
                let ok = if whole { identical_bytes(&x, original) } else { identical_bytes(&x.subject(), &original.subject()) };
                if !ok {
                    ctx.violate("C08.tamper", format!("after {} decryption returned a different plaintext than the original", fault));
                }
            }
            ctx.t(&format!("{} -> decrypt ok", fault));
        }
    }
}

fn check_uncompress_after_fault(ctx: &mut Ctx, delivered: &[u8], whole: bool, original: &Envelope, fault: &'static str) {
    ctx.fault(fault);
    ctx.checked();
    let env2 = match decode_guarded(delivered) {
        Decoded::Ok(e) => e,
        Decoded::Err => {
            ctx.probe("tampered-rejected-at-decode");
            ctx.t(&format!("{} -> decode err", fault));
            return;
        }
        Decoded::Panic(p) => {
            // "is rejected": a panic is not a rejection
            ctx.violate_sig("C13.fault-panics", format!("after {} the decoder panicked instead of rejecting: {}", fault, p), p);
            return;
        }
    };
    if let Err(p) = guarded(|| digest_of(&env2)) {
        ctx.violate_sig("C13.fault-panics", format!("after {} the decoder returned an envelope that panics when asked for its digest: {}", fault, p), p);
        return;
    }
    let r = guarded(|| if whole { env2.uncompress() } else { env2.uncompress_subject() });
    match r {
        Err(p) => ctx.violate_sig("C13.fault-panics", format!("uncompress panicked after {} instead of rejecting: {}", fault, p), p),
        Ok(Err(_)) => {
            ctx.probe("tampered-rejected-at-uncompress");
            ctx.t(&format!("{} -> uncompress err", fault));
        }
        Ok(Ok(x)) => {
            // legitimately possible (e.g. flipped checksum of a raw-stored payload is ignored,
            // or the flip landed in a sibling): but never other data for the compressed element
            ctx.probe("tampered-still-uncompresses");
            // "same content": same case and digest at every visible position (leaf digests cover leaf
            // content). The payload of a *nested* encrypted/compressed element is opaque to the digest
            // tree: damage inside it is detected when that element is opened, not here.
            let same = |a: &Envelope, b: &Envelope| positions_by_case(a) == positions_by_case(b);
            let ok = if whole {
                same(&x, original)
            } else if env2.subject().is_compressed() {
                same(&x.subject(), &original.subject())
            } else {
                true // the fault removed the compressed subject itself (e.g. retagged): nothing was uncompressed
            };
            if !ok {
                ctx.violate("C13.corrupt", format!("after {} uncompress returned an envelope that differs from the original content", fault));
            }
            ctx.t(&format!("{} -> uncompress ok", fault));
        }
    }
}

fn fault_step(w: &mut World, ctx: &mut Ctx, st: &Step) -> StepResult {
    let d = match w.idx(st.arg(0)) {
        Some(i) => i,
        None => return StepResult::Skipped,
    };
    let orig = w.docs[d].env.clone();
    let om = w.docs[d].m.clone();
    match st.op.as_str() {
        // ---------------- C08 ----------------
        "EncRoundtrip" => {
            // fault-free: decrypt∘encrypt identical, digest kept, second encryption refused
            let key = (st.arg(1) % 4) as u32;
            let whole = st.arg(2) % 2 == 1;
            let k = sym_key(key);
            // now and then the document is first turned into a node whose subject is itself a node: the whole is
            // compressed, an assertion is added to the compressed element, and the subject is uncompressed again
            let (orig, om) = if st.arg(3) % 3 == 2 && om.is_node() && w.docs[d].independent {
                match guarded(|| orig.compress().and_then(|c| c.add_assertion("kept with", 1).uncompress_subject())) {
                    Ok(Ok(e)) => {
                        ctx.probe("node-whose-subject-is-a-node");
                        (e, M::node(om.clone(), vec![M::assertion(M::leaf(CV::text("kept with")), M::leaf(CV::U(1)))]))
                    }
                    _ => (orig, om),
                }
            } else {
                (orig, om)
            };
            if !whole && om.subject().is_obscured() {
                // an elided or compressed subject is an element like any other: it is encrypted as it stands and comes
                // back as it was; only a subject that is already encrypted is refused
                match om.subject().obsc() {
                    Obsc::Elided | Obsc::Compressed if orig.subject().is_elided() || orig.subject().is_compressed() => ctx.probe("encrypt-subject-that-is-elided-or-compressed"),
                    Obsc::Encrypted(_) if orig.subject().is_encrypted() => {
                        ctx.checked();
                        match guarded(|| orig.encrypt_subject(&k)) {
                            Ok(Ok(_)) => ctx.violate("C08.double-encrypt", "a subject that is already encrypted was encrypted a second time".to_string()),
                            Ok(Err(_)) => ctx.probe("double-encrypt-refused"),
                            Err(p) => ctx.violate_sig("C16.no-panic", format!("second encrypt panicked: {}", p), p),
                        }
                        return StepResult::Refused;
                    }
                    _ => return StepResult::Skipped,
                }
            }
            let enc = match guarded(|| if whole { Ok(orig.encrypt(&k)) } else { orig.encrypt_subject(&k) }) {
                Ok(Ok(e)) => e,
                Ok(Err(_)) => {
                    if !whole && om.subject().is_obscured() {
                        // the library refuses some obscured subjects (a bare elided envelope: "already elided") and
                        // accepts others; the property only speaks about what an accepted encryption must satisfy
                        ctx.probe("obscured-subject-refused");
                        return StepResult::Refused;
                    }
                    ctx.checked();
                    ctx.violate("C08.encrypt-refused", "encrypt_subject refused a clear subject".to_string());
                    return StepResult::Refused;
                }
                Err(p) => {
                    ctx.violate_sig("C16.no-panic", format!("encrypt panicked: {}", p), p);
                    return StepResult::Skipped;
                }
            };
            if !whole && om.subject().obsc() == Obsc::Elided && identical_bytes(&enc, &orig) {
                // an elided subject holds nothing that could be encrypted: leaving the envelope exactly as it is counts
                // like a refusal (benign edit B8), not like a failed encryption
                ctx.probe("elided-subject-left-as-is");
                return StepResult::Refused;
            }
            ctx.checked();
            if !whole && digest_of(&enc) != digest_of(&orig) {
                ctx.violate("C08.digest", "the encrypted form does not have the original's digest".to_string());
            }
            if whole && digest_of(&enc) != digest_of(&orig.wrap_envelope()) {
                ctx.violate("C08.digest", "the wrapped-and-encrypted form does not have the wrapped original's digest".to_string());
            }
            if !enc.is_subject_encrypted() {
                ctx.violate("C08.encrypted", "after encryption the subject is not encrypted".to_string());
            }
            match guarded(|| enc.encrypt_subject(&sym_key((key + 1) % 4))) {
                Ok(Ok(_)) => ctx.violate("C08.double-encrypt", "a subject that is already encrypted was encrypted a second time".to_string()),
                Ok(Err(_)) => ctx.probe("double-encrypt-refused"),
                Err(p) => ctx.violate_sig("C16.no-panic", format!("second encrypt panicked: {}", p), p),
            }
            // through the wire
            let wire = enc.to_cbor_data();
            let back = match decode_guarded(&wire) {
                Decoded::Ok(e) => e,
                _ => {
                    ctx.violate("C08.roundtrip", "the encrypted envelope does not decode".to_string());
                    return StepResult::Refused;
                }
            };
            match guarded(|| if whole { back.decrypt(&k) } else { back.decrypt_subject(&k) }) {
                Ok(Ok(x)) => {
                    if !x.is_identical_to(&orig) || !identical_bytes(&x, &orig) {
                        ctx.violate("C08.roundtrip", "decrypting with the same key did not return an envelope identical to the original".to_string());
                    }
                    if w.docs[d].independent {
                        if let Err(e) = compare_env(&x, &om, "") {
                            ctx.violate("C08.roundtrip", format!("decrypted envelope differs from the model of the original: {}", e));
                        }
                    }
                }
                Ok(Err(e)) => ctx.violate("C08.roundtrip", format!("decrypting with the same key failed: {}", e)),
                Err(p) => ctx.violate_sig("C16.no-panic", format!("decrypt panicked: {}", p), p),
            }
            // wrong key
            ctx.fault("key.wrong");
            match guarded(|| if whole { back.decrypt(&sym_key((key + 1 + (st.arg(3) % 3) as u32) % 4)) } else { back.decrypt_subject(&sym_key((key + 1 + (st.arg(3) % 3) as u32) % 4)) }) {
                Ok(Ok(_)) => ctx.violate("C08.wrong-key", "decryption with another key returned an envelope".to_string()),
                Ok(Err(_)) => ctx.probe("wrong-key-refused"),
                Err(p) => ctx.violate_sig("C16.no-panic", format!("decrypt with wrong key panicked: {}", p), p),
            }
            ctx.t(&format!("EncRoundtrip whole={} {}B", whole, wire.len()));
            ctx.shape_mix(om.shape_hash() ^ 0x08);
            StepResult::Produced
        }
        "EncObscured" => {
            // an element encrypted in place by the obscuring API (its plaintext may be a whole node), used as
            // the subject of further assertions, sent, then decrypted with the same key
            let key = (st.arg(1) % 4) as u32;
            let k = sym_key(key);
            if om.is_obscured() {
                return StepResult::Skipped;
            }
            let act = ObscureAction::Encrypt(k.clone());
            let enc = match guarded(|| orig.elide_removing_target_with_action(&orig, &act)) {
                Ok(e) => e,
                Err(p) => {
                    ctx.violate_sig("C16.no-panic", format!("elide with Encrypt action panicked: {}", p), p);
                    return StepResult::Skipped;
                }
            };
            ctx.checked();
            if digest_of(&enc) != digest_of(&orig) || !enc.is_encrypted() {
                ctx.violate("C08.digest", "an element encrypted in place does not keep its digest (or is not encrypted)".to_string());
            }
            let decorated = if st.arg(2) % 2 == 0 { enc.add_assertion("verif-note", (st.arg(2) % 89) as u32) } else { enc.clone() };
            if om.is_node() {
                ctx.probe("encrypted-node-as-subject");
            }
            let back = match decode_guarded(&decorated.to_cbor_data()) {
                Decoded::Ok(e) => e,
                _ => {
                    ctx.violate("C08.roundtrip", "the encrypted envelope does not decode".to_string());
                    return StepResult::Refused;
                }
            };
            match guarded(|| back.decrypt_subject(&k)) {
                Ok(Ok(x)) => {
                    if digest_of(&x) != digest_of(&decorated) {
                        ctx.violate("C08.digest", "decrypting the subject changed the envelope's digest".to_string());
                    }
                    // with the extra assertion the original sits in the subject position; without it, it is the result
                    let restored = if st.arg(2) % 2 == 0 { x.subject() } else { x.clone() };
                    if !identical_bytes(&restored, &orig) {
                        ctx.violate("C08.roundtrip", "decrypting an element encrypted in place did not restore the original as the subject".to_string());
                    }
                }
                Ok(Err(e)) => ctx.violate("C08.roundtrip", format!("decrypting an element encrypted in place with the same key failed: {}", e)),
                Err(p) => ctx.violate_sig("C16.no-panic", format!("decrypt panicked: {}", p), p),
            }
            ctx.t("EncObscured");
            ctx.shape_mix(om.shape_hash() ^ 0x48);
            StepResult::Produced
        }
        "EncDecorated" | "CompDecorated" => {
            // an assertion that carries its own assertion, whose inner predicate/object pair is obscured in place;
            // then the WHOLE envelope is encrypted (resp. compressed), sent, and restored
            let enc_case = st.op == "EncDecorated";
            let (pi, oi) = (w.idx(st.arg(1)).unwrap_or(d), w.idx(st.arg(2)).unwrap_or(d));
            let inner = Envelope::new_assertion(w.docs[pi].env.clone(), w.docs[oi].env.clone());
            let decorated = inner.add_assertion("since", (st.arg(3) % 40) as u32);
            let host = match guarded(|| orig.add_assertion_envelope(decorated.clone())) {
                Ok(Ok(e)) => e,
                _ => return StepResult::Skipped,
            };
            let k1 = sym_key((st.arg(3) % 4) as u32);
            let k2 = sym_key(((st.arg(3) + 1) % 4) as u32);
            let action = match (enc_case, st.arg(3) % 3) {
                (true, _) => ObscureAction::Encrypt(k1.clone()),
                (false, 0) => ObscureAction::Elide,
                (false, _) => ObscureAction::Compress,
            };
            let shaped = match guarded(|| host.elide_removing_target_with_action(&inner, &action)) {
                Ok(e) => e,
                Err(p) => {
                    ctx.violate_sig("C16.no-panic", format!("elide with action panicked: {}", p), p);
                    return StepResult::Skipped;
                }
            };
            ctx.probe("decorated-assertion-with-obscured-inner-pair");
            ctx.checked();
            let oracle = if enc_case { "C08.roundtrip" } else { "C13.roundtrip" };
            let packed = match guarded(|| if enc_case { Ok(shaped.encrypt(&k2)) } else { shaped.compress() }) {
                Ok(Ok(e)) => e,
                Ok(Err(e)) => {
                    ctx.violate(oracle, format!("packing an envelope that holds a decorated, partly obscured assertion failed: {}", e));
                    return StepResult::Refused;
                }
                Err(p) => {
                    ctx.violate_sig(oracle, format!("packing an envelope that holds a decorated, partly obscured assertion panicked: {}", p), p);
                    return StepResult::Skipped;
                }
            };
            let back = match decode_guarded(&packed.to_cbor_data()) {
                Decoded::Ok(e) => e,
                _ => {
                    ctx.violate(oracle, "the packed envelope does not decode".to_string());
                    return StepResult::Refused;
                }
            };
            match guarded(|| if enc_case { back.decrypt(&k2) } else { back.uncompress() }) {
                Ok(Ok(x)) => {
                    if !identical_bytes(&x, &shaped) {
                        ctx.violate(oracle, "restoring did not return an envelope identical to the original".to_string());
                    }
                }
                Ok(Err(e)) => ctx.violate(oracle, format!("restoring an envelope that holds a decorated, partly obscured assertion failed: {}", e)),
                Err(p) => ctx.violate_sig(oracle, format!("restoring panicked: {}", p), p),
            }
            // the subject-only forms on the same document
            if !enc_case && !shaped.subject().is_obscured() {
                match guarded(|| shaped.compress_subject().and_then(|c| c.uncompress_subject())) {
                    Ok(Ok(x)) => {
                        if !identical_bytes(&x, &shaped) {
                            ctx.violate(oracle, "compress_subject / uncompress_subject did not return an envelope identical to the original".to_string());
                        }
                    }
                    Ok(Err(_)) if shaped.subject().is_obscured() && !shaped.subject().is_compressed() => {}
                    Ok(Err(e)) => ctx.violate(oracle, format!("compress_subject / uncompress_subject failed on an envelope that holds a decorated, partly obscured assertion: {}", e)),
                    Err(p) => ctx.violate_sig(oracle, format!("compress_subject / uncompress_subject panicked: {}", p), p),
                }
            }
            ctx.t(&st.op);
            ctx.shape_mix(om.shape_hash() ^ 0x58);
            StepResult::Produced
        }
        "EncTamper" | "EncBitflip" | "EncFlipAll" => {
            let key = (st.arg(1) % 4) as u32;
            let whole = st.arg(2) % 2 == 1;
            let k = sym_key(key);
            if !whole && om.subject().is_obscured() {
                return StepResult::Skipped;
            }
            let enc = match guarded(|| if whole { Ok(orig.encrypt(&k)) } else { orig.encrypt_subject(&k) }) {
                Ok(Ok(e)) => e,
                _ => return StepResult::Skipped,
            };
            let wire = enc.to_cbor_data();
            let top = match Item::decode(&wire) {
                Ok(t) => t,
                Err(_) => return StepResult::Skipped,
            };
            let path = subject_path(&top);
            match st.op.as_str() {
                "EncTamper" => {
                    let (b, name) = match tamper_field(&wire, &path, st.arg(3), st.arg(4), st.arg(5)) {
                        Some(x) => x,
                        None => return StepResult::Skipped,
                    };
                    check_decrypt_after_fault(ctx, &b, key, whole, &orig, name, true);
                }
                "EncBitflip" => {
                    let n = wire.len() as u64 * 8;
                    let bit = st.arg(3) % n;
                    let mut b = wire.clone();
                    b[(bit / 8) as usize] ^= 1 << (bit % 8);
                    check_decrypt_after_fault(ctx, &b, key, whole, &orig, "bytes.bitflip", false);
                }
                _ => {
                    // fault enumeration: every single-bit flip of every field of a small encrypted element
                    if wire.len() > 400 {
                        return StepResult::Skipped;
                    }
                    let mut t2 = top.clone();
                    let el = match at_mut(&mut t2, &path) {
                        Some(e) => e.clone(),
                        None => return StepResult::Skipped,
                    };
                    let fields = el.items().get(0).map(|a| a.items().to_vec()).unwrap_or_default();
                    for (f, fi) in fields.iter().enumerate() {
                        let nbits = match &fi.body {
                            Body::Bytes(b) => b.len() * 8,
                            _ => 0,
                        };
                        for bit in 0..nbits {
                            if let Some((b, name)) = tamper_field(&wire, &path, f as u64, bit as u64, 1) {
                                check_decrypt_after_fault(ctx, &b, key, whole, &orig, name, true);
                            }
                            if ctx.failed() {
                                return StepResult::Produced;
                            }
                        }
                    }
                    ctx.probe("enc-flip-all-elements");
                }
            }
            ctx.shape_mix(om.shape_hash() ^ 0x18);
            StepResult::Produced
        }
        "EncMisdeclare" => {
            // a key holder builds a well-formed encrypted element whose content does not hash to the declared digest
            let o = match w.idx(st.arg(1)) {
                Some(i) => i,
                None => return StepResult::Skipped,
            };
            let key = (st.arg(2) % 4) as u32;
            let k = sym_key(key);
            let declared = om.subject().digest();
            let other = w.docs[o].env.clone();
            if digest_of(&other) == declared {
                return StepResult::Skipped;
            }
            ctx.fault("byzantine.misdeclare");
            // the content is another envelope's encoding, or something that is no envelope at all: nothing, one byte,
            // half a tag, a cut-off encoding
            let full = other.tagged_cbor().to_cbor_data();
            let content: Vec<u8> = match st.arg(3) / 2 % 8 {
                3 => vec![],
                4 => vec![0xd8],
                5 => vec![0xd8, 0xc8],
                6 => full[..full.len() / 2].to_vec(),
                7 => vec![(st.arg(3) >> 4) as u8],
                _ => full,
            };
            if content.len() < 3 {
                ctx.probe("misdeclare-degenerate-content");
            }
            let msg = k.encrypt_with_digest(content, to_lib_digest(&declared), None::<Nonce>);
            let forged_subject = match Envelope::try_from(msg) {
                Ok(e) => e,
                Err(_) => return StepResult::Skipped,
            };
            // bare, or as the subject of the original's assertions
            let forged = if om.is_node() && st.arg(3) % 2 == 0 {
                ctx.probe("misdeclare-on-node-subject");
                match guarded(|| orig.replace_subject(forged_subject.clone())) {
                    Ok(e) => e,
                    Err(_) => return StepResult::Skipped,
                }
            } else {
                ctx.probe("misdeclare-on-bare-subject");
                forged_subject
            };
            // deliver through the wire like any other envelope
            let delivered = match decode_guarded(&forged.to_cbor_data()) {
                Decoded::Ok(e) => e,
                _ => return StepResult::Skipped,
            };
            ctx.checked();
            match guarded(|| delivered.decrypt_subject(&k)) {
                Ok(Ok(x)) => ctx.violate("C08.misdeclare", format!("a ciphertext whose plaintext (digest {}) does not hash to its declared digest {} was accepted", dhex(&digest_of(&other)), dhex(&digest_of(&delivered.subject())))),
                Ok(Err(_)) => ctx.probe("misdeclare-refused"),
                Err(p) => {
                    ctx.violate_sig("C16.no-panic", format!("decrypt of mis-declared content panicked: {}", p), p.clone());
                    ctx.violate_sig("C08.fault-panics", format!("decrypt of content that does not hash to its declared digest panicked instead of failing with an error: {}", p), p);
                }
            }
            ctx.t("EncMisdeclare");
            ctx.shape_mix(om.shape_hash() ^ 0x28);
            StepResult::Produced
        }
        // ---------------- C13 ----------------
        "CompRoundtrip" => {
            let whole = st.arg(1) % 2 == 1;
            let target = if whole { om.clone() } else { om.subject() };
            if matches!(target.obsc(), Obsc::Elided | Obsc::Encrypted(_) | Obsc::Some) {
                return StepResult::Skipped;
            }
            let c = match guarded(|| if whole { orig.compress() } else { orig.compress_subject() }) {
                Ok(Ok(e)) => e,
                Ok(Err(e)) => {
                    ctx.checked();
                    ctx.violate("C13.compress-refused", format!("compress refused: {}", e));
                    return StepResult::Refused;
                }
                Err(p) => {
                    ctx.violate_sig("C16.no-panic", format!("compress panicked: {}", p), p);
                    return StepResult::Skipped;
                }
            };
            ctx.checked();
            if digest_of(&c) != digest_of(&orig) {
                ctx.violate("C13.digest", "compression changed the digest".to_string());
            }
            // idempotent
            match guarded(|| if whole { c.compress() } else { c.compress_subject() }) {
                Ok(Ok(c2)) => {
                    if !identical_bytes(&c2, &c) {
                        ctx.violate("C13.idempotent", "compressing twice differs from compressing once".to_string());
                    }
                }
                Ok(Err(e)) => ctx.violate("C13.idempotent", format!("compressing a compressed envelope failed: {}", e)),
                Err(p) => ctx.violate_sig("C16.no-panic", format!("compress panicked: {}", p), p),
            }
            if target.obsc() == Obsc::Compressed {
                // already compressed: idempotence and digest are all the statement fixes here
                ctx.probe("compress-already-compressed");
                return StepResult::Produced;
            }
            // used as the subject of further assertions, stored, reloaded, uncompressed
            let decorated = if st.arg(2) % 2 == 0 {
                ctx.probe("compressed-as-subject-of-more-assertions");
                c.add_assertion("verif-note", (st.arg(2) % 97) as u32)
            } else {
                c.clone()
            };
            let expect = if st.arg(2) % 2 == 0 {
                // the same assertion around the original
                if whole || !om.is_node() {
                    // whole-compressed (or a bare subject): the compressed element is the subject; uncompress_subject restores the original *as the subject*
                    None
                } else {
                    Some(orig.add_assertion("verif-note", (st.arg(2) % 97) as u32))
                }
            } else {
                Some(orig.clone())
            };
            let wire = decorated.to_cbor_data();
            let back = match decode_guarded(&wire) {
                Decoded::Ok(e) => e,
                _ => {
                    ctx.violate("C13.roundtrip", "the compressed envelope does not decode".to_string());
                    return StepResult::Refused;
                }
            };
            if digest_of(&back) != digest_of(&decorated) {
                ctx.violate("C13.digest", "digest changed across storage of a compressed envelope".to_string());
            }
            if st.arg(2) % 2 == 1 {
                // the other pairing: an undecorated compressed element restored with uncompress_subject()
                match guarded(|| back.uncompress_subject()) {
                    Ok(Ok(x)) => {
                        if !identical_bytes(&x, &orig) {
                            ctx.violate("C13.roundtrip", "uncompress_subject of a compressed envelope did not return the original".to_string());
                        }
                    }
                    Ok(Err(e)) => ctx.violate("C13.roundtrip", format!("uncompress_subject of a library-compressed envelope failed: {}", e)),
                    Err(p) => ctx.violate_sig("C13.roundtrip", format!("uncompress_subject panicked instead of returning the original: {}", p), p),
                }
            }
            let un = guarded(|| if whole && st.arg(2) % 2 == 1 { back.uncompress() } else { back.uncompress_subject() });
            match un {
                Ok(Ok(x)) => {
                    if digest_of(&x) != digest_of(&decorated) {
                        ctx.violate("C13.digest", "uncompressing changed the digest".to_string());
                    }
                    if let Some(e) = &expect {
                        if !identical_bytes(&x, e) || !x.is_identical_to(e) {
                            ctx.violate("C13.roundtrip", "uncompress did not return an envelope identical to the original".to_string());
                        }
                    } else {
                        // subject of x must be identical to the original whole
                        // with the extra assertion the original sits in the subject position; without it, it is the result
                    let restored = if st.arg(2) % 2 == 0 { x.subject() } else { x.clone() };
                    if !identical_bytes(&restored, &orig) {
                            ctx.violate("C13.roundtrip", "uncompress_subject did not restore the original as the subject".to_string());
                        }
                    }
                }
                Ok(Err(e)) => ctx.violate("C13.roundtrip", format!("uncompress of a library-compressed envelope failed: {}", e)),
                Err(p) => ctx.violate_sig("C16.no-panic", format!("uncompress panicked: {}", p), p),
            }
            // payload probes
            if let Ok(top) = Item::decode(&c.to_cbor_data()) {
                for s in sites_of(&top) {
                    if s.kind == SiteKind::Compressed {
                        let mut t2 = top.clone();
                        if let Some(el) = at_mut(&mut t2, &s.path) {
                            let f = el.items()[0].items();
                            if f.len() == 4 {
                                let dl = match &f[2].body {
                                    Body::Bytes(b) => b.len() as u64,
                                    _ => 0,
                                };
                                if dl == f[1].arg {
                                    ctx.probe("raw-stored-payload");
                                } else {
                                    ctx.probe("deflated-payload");
                                }
                            }
                        }
                    }
                }
            }
            if target.is_node() {
                ctx.probe("node-compressed");
            }
            ctx.t(&format!("CompRoundtrip whole={} {}B", whole, wire.len()));
            ctx.shape_mix(om.shape_hash() ^ 0x13);
            StepResult::Produced
        }
        "CompTamper" | "CompBitflip" | "CompFlipAll" => {
            let whole = st.arg(1) % 2 == 1;
            let target = if whole { om.clone() } else { om.subject() };
            if !matches!(target.obsc(), Obsc::Clear) {
                return StepResult::Skipped;
            }
            let c = match guarded(|| if whole { orig.compress() } else { orig.compress_subject() }) {
                Ok(Ok(e)) => e,
                _ => return StepResult::Skipped,
            };
            let wire = c.to_cbor_data();
            let top = match Item::decode(&wire) {
                Ok(t) => t,
                Err(_) => return StepResult::Skipped,
            };
            let path = subject_path(&top);
            match st.op.as_str() {
                "CompTamper" => {
                    let (b, name) = match tamper_field(&wire, &path, st.arg(2), st.arg(3), st.arg(4)) {
                        Some(x) => x,
                        None => return StepResult::Skipped,
                    };
                    check_uncompress_after_fault(ctx, &b, whole, &orig, name);
                }
                "CompBitflip" => {
                    let n = wire.len() as u64 * 8;
                    let bit = st.arg(2) % n;
                    let mut b = wire.clone();
                    b[(bit / 8) as usize] ^= 1 << (bit % 8);
                    check_uncompress_after_fault(ctx, &b, whole, &orig, "bytes.bitflip");
                }
                _ => {
                    if wire.len() > 300 {
                        return StepResult::Skipped;
                    }
                    for bit in 0..wire.len() * 8 {
                        let mut b = wire.clone();
                        b[bit / 8] ^= 1 << (bit % 8);
                        check_uncompress_after_fault(ctx, &b, whole, &orig, "bytes.bitflip");
                        if ctx.failed() {
                            return StepResult::Produced;
                        }
                    }
                    ctx.probe("comp-flip-all-elements");
                }
            }
            ctx.shape_mix(om.shape_hash() ^ 0x23);
            StepResult::Produced
        }
        "CompForged" => {
            // a forger rewrites the CONTENT of a compressed element (a structure-aware mutation that makes it ill-formed
            // as an envelope: an assertion map with two pairs, a node without assertions, a non-assertion in a slot
            // ...), compresses it again with a valid checksum and declares the genuine digest: the data is corrupt and
            // must be rejected on uncompress
            let genuine = orig.tagged_cbor().to_cbor_data();
            let mu = match crate::wire::struct_mutate(&genuine, st.arg(1), st.arg(2), st.arg(3)) {
                Some(m) if m.must_reject && m.bytes != genuine => m,
                _ => return StepResult::Skipped,
            };
            ctx.fault("byzantine.forged-content");
            let comp = Compressed::from_uncompressed_data(mu.bytes.clone(), Some(to_lib_digest(&om.digest())));
            let forged = match Envelope::try_from(comp) {
                Ok(e) => e,
                Err(_) => return StepResult::Skipped,
            };
            let as_subject = st.arg(4) % 2 == 0;
            let forged = if as_subject { forged.add_assertion("k", 1) } else { forged };
            let delivered = match decode_guarded(&forged.to_cbor_data()) {
                Decoded::Ok(e) => e,
                _ => return StepResult::Skipped,
            };
            ctx.checked();
            match guarded(|| if as_subject { delivered.uncompress_subject() } else { delivered.uncompress() }) {
                Ok(Ok(_)) => ctx.violate("C13.corrupt", format!("a compressed element whose content is not a well-formed envelope ({}) was opened by uncompress", mu.name)),
                Ok(Err(_)) => ctx.probe("forged-content-refused"),
                Err(p) => ctx.violate_sig("C13.fault-panics", format!("uncompress of forged content panicked instead of rejecting: {}", p), p),
            }
            ctx.t("CompForged");
            StepResult::Produced
        }
        "CompMisdeclare" | "CompMisdirected" => {
            // a compressed element whose content does not hash to the digest it declares:
            // built by a Byzantine party, or the result of a misdirected write (another document's
            // compressed bytes under this document's digest)
            let o = match w.idx(st.arg(1)) {
                Some(i) => i,
                None => return StepResult::Skipped,
            };
            let declared = om.digest();
            let other = w.docs[o].env.clone();
            if digest_of(&other) == declared {
                return StepResult::Skipped;
            }
            ctx.fault(if st.op == "CompMisdeclare" { "byzantine.misdeclare" } else { "store.misdirected" });
            let comp = Compressed::from_uncompressed_data(other.tagged_cbor().to_cbor_data(), Some(to_lib_digest(&declared)));
            let forged = match Envelope::try_from(comp) {
                Ok(e) => e,
                Err(_) => return StepResult::Skipped,
            };
            let forged = if st.arg(2) % 2 == 0 { forged.add_assertion("k", 1) } else { forged };
            let delivered = match decode_guarded(&forged.to_cbor_data()) {
                Decoded::Ok(e) => e,
                _ => return StepResult::Skipped,
            };
            ctx.checked();
            match guarded(|| if st.arg(2) % 2 == 0 { delivered.uncompress_subject() } else { delivered.uncompress() }) {
                Ok(Ok(_)) => ctx.violate("C13.misdeclare", "a compressed element whose content does not hash to its declared digest was accepted on uncompress".to_string()),
                Ok(Err(_)) => ctx.probe("misdeclare-refused"),
                Err(p) => ctx.violate_sig("C16.no-panic", format!("uncompress of mis-declared content panicked: {}", p), p),
            }
            ctx.t(&st.op);
            ctx.shape_mix(om.shape_hash() ^ 0x33);
            StepResult::Produced
        }
        _ => StepResult::Skipped,
    }
}

pub fn run(scn: &Scenario, ctx: &mut Ctx) {
    let mut w = World::new(scn.cfg("leafdom", crate::gen::DOM_ALL));
    for (i, st) in scn.steps.iter().enumerate() {
        ctx.step = i;
        ctx.sim_ticks += 1;
        let r = match st.op.as_str() {
            "EncRoundtrip" | "EncObscured" | "EncDecorated" | "CompDecorated" | "EncTamper" | "EncBitflip" | "EncFlipAll" | "EncMisdeclare" | "CompRoundtrip" | "CompTamper" | "CompBitflip" | "CompFlipAll" | "CompMisdeclare" | "CompMisdirected" | "CompForged" => fault_step(&mut w, ctx, st),
            _ => hist::exec_step(&mut w, ctx, st),
        };
        if !matches!(r, StepResult::Skipped) {
            ctx.executed += 1;
        }
        if ctx.failed() && ctx.stop_at_first {
            break;
        }
    }
}

fn ds(r: &mut SimRng) -> u64 {
    if r.chance(2, 3) {
        r.below(3)
    } else {
        r.below(12)
    }
}

pub fn generate(property: &str, r: &mut SimRng, seed: u64) -> Scenario {
    let mut scn = hist::generate(property, r, seed);
    scn.family = "tamper".to_string();
    let keep = r.range(2, 10) as usize;
    scn.steps.truncate(keep.max(2));
    let n = r.range(1, 6);
    for _ in 0..n {
        if property == "C08" {
            match r.below(10) {
                0..=1 => scn.push("EncRoundtrip", &[ds(r), r.below(4), r.below(2), r.below(3)]),
                2 => {
                    if r.chance(1, 2) {
                        scn.push("EncObscured", &[ds(r), r.below(4), r.below(200)])
                    } else {
                        scn.push("EncDecorated", &[ds(r), ds(r), ds(r), r.below(120)])
                    }
                }
                3..=5 => scn.push("EncTamper", &[ds(r), r.below(4), r.below(2), r.below(4), r.next() % 100000, r.below(6)]),
                6..=7 => scn.push("EncBitflip", &[ds(r), r.below(4), r.below(2), r.next() % 1000000]),
                _ => scn.push("EncMisdeclare", &[ds(r), ds(r), r.below(4), r.below(1 << 13)]),
            }
        } else {
            match r.below(10) {
                0..=1 => scn.push("CompRoundtrip", &[ds(r), r.below(2), r.below(200)]),
                2 => scn.push("CompDecorated", &[ds(r), ds(r), ds(r), r.below(120)]),
                3..=5 => scn.push("CompTamper", &[ds(r), r.below(2), r.below(4), r.next() % 100000, r.below(6)]),
                6..=7 => scn.push("CompBitflip", &[ds(r), r.below(2), r.next() % 1000000]),
                8 => {
                    if r.chance(1, 2) {
                        scn.push("CompMisdeclare", &[ds(r), ds(r), r.below(2)])
                    } else {
                        scn.push("CompForged", &[ds(r), if r.chance(1, 3) { 6 } else { r.below(crate::wire::N_STRUCT_KINDS) }, r.below(16), r.below(1000), r.below(2)])
                    }
                }
                _ => scn.push("CompMisdirected", &[ds(r), ds(r), r.below(2)]),
            }
        }
    }
    scn
}

pub fn generate_enum(property: &str, r: &mut SimRng, seed: u64) -> Scenario {
    let mut scn = hist::generate(property, r, seed);
    scn.family = "tamper".to_string();
    let keep = r.range(2, 7) as usize;
    scn.steps.truncate(keep.max(2));
    if property == "C08" {
        scn.push("EncFlipAll", &[ds(r), r.below(4), r.below(2)]);
    } else {
        scn.push("CompFlipAll", &[ds(r), r.below(2)]);
    }
    scn
}

#[allow(dead_code)]
fn _unused(_: &dyn DigestProvider) -> String {
    hex(&[])
}
