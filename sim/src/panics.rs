//! C16 family: every operation of the query / transform / obscure / verify / parse / format
//! families applied, under catch_unwind, to documents of all shapes: histories, decorated
//! assertions (salted, signed with metadata, recipient- and share-bearing), every obscuration
//! pattern, and adversarially decoded documents (survivors of the wire fault engine).
//! A panic is this library's crash.

use crate::bridge::*;
use crate::core::{Ctx, Scenario, Step};
use crate::cv::{hex, Item};
use crate::hist::{self, Doc, StepResult, World};
use crate::keys;
use crate::model::*;
use crate::rng::SimRng;
use crate::wire::{byte_mutate, decode_guarded, struct_mutate, Decoded};
use bc_components::{Digest, SSKRGroupSpec, SSKRSpec, Salt, SealedMessage, Signature, SymmetricKey, ARID};
use bc_envelope::extension::expressions::{Event, Expression, Function, Parameter, Request, Response};
use bc_envelope::prelude::*;
use bc_envelope::{Assertion, SignatureMetadata};
use std::collections::HashSet;
use std::sync::atomic::{AtomicU32, Ordering};

pub const N_SHAPES: u64 = 134;

/// Does the encoding contain a date leaf (#6.1) outside the range dcbor/chrono can represent?
/// Such documents trip known finding D7 in every formatting / date-extracting call, and the
/// panic poisons the process-wide format context, so they are kept away from those calls
/// in the worker processes (and probed in a sacrificial child instead).
pub fn d7_prone(bytes: &[u8]) -> bool {
    fn rec(i: &Item) -> bool {
        if i.major == 6 && i.arg == 1 {
            if let Some(x) = i.items().first() {
                let v: Option<f64> = match (x.major, x.ai) {
                    (0, _) => Some(x.arg as f64),
                    (1, _) => Some(-1.0 - x.arg as f64),
                    (7, 25) => Some(crate::cv::f16_bits_to_f64(x.arg as u16)),
                    (7, 26) => Some(f32::from_bits(x.arg as u32) as f64),
                    (7, 27) => Some(f64::from_bits(x.arg)),
                    _ => None,
                };
                if let Some(v) = v {
                    if !v.is_finite() || v.abs() > 8.0e12 {
                        return true;
                    }
                }
            }
        }
        i.items().iter().any(rec)
    }
    // the payload of encrypted/compressed elements is opaque here; formatting does not open it
    Item::decode(bytes).map(|i| rec(&i)).unwrap_or(false)
}

/// Shapes that format or extract dates (reach dcbor::Date::from_timestamp).
pub fn touches_date(shape: u64) -> bool {
    matches!(shape % N_SHAPES, 100..=112 | 29 | 84..=89)
}

fn pred_arg(a: u64) -> Envelope {
    match a % 8 {
        0 => Envelope::new(known_values::SIGNED),
        1 => Envelope::new(known_values::HAS_RECIPIENT),
        2 => Envelope::new(known_values::SSKR_SHARE),
        3 => Envelope::new(known_values::SALT),
        4 => Envelope::new(known_values::IS_A),
        5 => Envelope::new(known_values::ATTACHMENT),
        6 => Envelope::new("verif-note"),
        _ => Envelope::new(a / 8 % 8),
    }
}

fn some_digests(env: &Envelope, a: u64) -> HashSet<Digest> {
    let mut v: Vec<Digest> = env.deep_digests().into_iter().collect();
    v.sort();
    let mut out = HashSet::new();
    for (i, d) in v.iter().enumerate() {
        if i < 60 && a & (1 << i) != 0 {
            out.insert(d.clone());
        }
    }
    out
}

/// One call shape. Everything here is public API used within its documented preconditions.
/// Returns a short outcome class for the trace.
pub fn call_shape(env: &Envelope, other: &Envelope, shape: u64, a: u64, b: u64) -> &'static str {
    fn r<T, E>(x: Result<T, E>) -> &'static str {
        if x.is_ok() {
            "ok"
        } else {
            "err"
        }
    }
    fn o<T>(x: Option<T>) -> &'static str {
        if x.is_some() {
            "some"
        } else {
            "none"
        }
    }
    let key = sym_key((a % 4) as u32);
    match shape % N_SHAPES {
        // ---- queries ----
        0 => { let _ = env.subject(); "ok" }
        1 => { let _ = env.assertions(); "ok" }
        2 => { let _ = env.has_assertions(); "ok" }
        3 => o(env.as_assertion()),
        4 => o(env.as_predicate()),
        5 => o(env.as_object()),
        6 => r(env.try_assertion()),
        7 => r(env.try_predicate()),
        8 => r(env.try_object()),
        9 => o(env.as_leaf()),
        10 => r(env.try_leaf()),
        11 => r(env.try_byte_string()),
        12 => o(env.as_known_value()),
        13 => r(env.try_known_value().map(|_| ())),
        14 => { let _ = (env.is_leaf(), env.is_node(), env.is_wrapped(), env.is_known_value(), env.is_assertion(), env.is_encrypted(), env.is_compressed(), env.is_elided()); "ok" }
        15 => { let _ = (env.is_subject_assertion(), env.is_subject_encrypted(), env.is_subject_compressed(), env.is_subject_elided(), env.is_subject_obscured(), env.is_internal(), env.is_obscured()); "ok" }
        16 => r(env.extract_subject::<String>()),
        17 => r(env.extract_subject::<i64>()),
        18 => r(env.extract_subject::<u64>()),
        19 => r(env.extract_subject::<u8>()),
        20 => r(env.extract_subject::<bool>()),
        21 => r(env.extract_subject::<f64>()),
        22 => r(env.extract_subject::<dcbor::ByteString>()),
        23 => r(env.extract_subject::<Digest>()),
        24 => r(env.extract_subject::<Envelope>()),
        25 => r(env.extract_subject::<KnownValue>()),
        26 => r(env.extract_subject::<Assertion>()),
        27 => r(env.extract_subject::<Salt>()),
        28 => r(env.extract_subject::<Signature>()),
        29 => r(env.extract_subject::<dcbor::Date>()),
        30 => r(env.extract_subject::<SealedMessage>()),
        31 => r(env.extract_subject::<bc_components::SSKRShare>()),
        32 => { let _ = env.assertions_with_predicate(pred_arg(a)); "ok" }
        33 => r(env.assertion_with_predicate(pred_arg(a))),
        34 => r(env.optional_assertion_with_predicate(pred_arg(a))),
        35 => r(env.object_for_predicate(pred_arg(a))),
        36 => { let _ = env.objects_for_predicate(pred_arg(a)); "ok" }
        37 => r(env.optional_object_for_predicate(pred_arg(a))),
        38 => r(env.extract_object_for_predicate::<String>(pred_arg(a))),
        39 => r(env.extract_optional_object_for_predicate::<u64>(pred_arg(a))),
        40 => r(env.extract_objects_for_predicate::<String>(pred_arg(a))),
        41 => r(env.extract_object_for_predicate_with_default::<u64>(pred_arg(a), 7)),
        42 => r(env.try_object_for_predicate::<Salt>(pred_arg(a))),
        43 => r(env.try_optional_object_for_predicate::<Signature>(pred_arg(a))),
        44 => r(env.try_objects_for_predicate::<SealedMessage>(pred_arg(a))),
        45 => r(env.extract_object::<String>()),
        46 => r(env.extract_predicate::<String>()),
        47 => { let _ = env.elements_count(); "ok" }
        48 => { let _ = env.digests((a % 5) as usize); "ok" }
        49 => { let _ = (env.deep_digests().len(), env.shallow_digests().len()); "ok" }
        50 => { let _ = env.structural_digest(); "ok" }
        51 => { let _ = (env.is_equivalent_to(other), env.is_identical_to(other), env == other); "ok" }
        52 => {
            let n = std::cell::Cell::new(0usize);
            let v = |_e: Envelope, _l: usize, _t: EdgeType, _p: Option<&()>| -> Option<&()> { n.set(n.get() + 1); None };
            env.walk(a % 2 == 0, &v);
            "ok"
        }
        53 => { let _ = (env.is_true(), env.is_false(), env.is_null()); "ok" }
        // ---- transforms ----
        54 => { let _ = env.add_assertion(pred_arg(a), other.clone()); "ok" }
        55 => r(env.add_assertion_envelope(other.clone())),
        56 => r(env.add_assertion_envelopes(&[other.clone(), env.clone()])),
        57 => r(env.add_optional_assertion_envelope(if a % 2 == 0 { Some(other.clone()) } else { None })),
        58 => { let _ = env.add_optional_assertion(pred_arg(a), if b % 2 == 0 { Some(other.clone()) } else { None }); "ok" }
        59 => { let _ = env.remove_assertion(other.clone()); "ok" }
        60 => {
            let asr = env.assertions();
            if asr.is_empty() { return "skip"; }
            r(env.replace_assertion(asr[(a % asr.len() as u64) as usize].clone(), other.clone()))
        }
        61 => { let _ = env.replace_subject(other.clone()); "ok" }
        62 => { let _ = env.wrap_envelope(); "ok" }
        63 => r(env.unwrap_envelope()),
        64 => { let _ = env.add_assertion_if(a % 2 == 0, "k", 1); "ok" }
        65 => r(env.add_assertion_envelope_if(a % 2 == 0, other.clone())),
        66 => { let _ = env.add_nonempty_string_assertion("k", if a % 2 == 0 { "" } else { "v" }); "ok" }
        // ---- obscuring ----
        67 => { let _ = env.elide(); "ok" }
        68 => {
            let t = some_digests(env, b);
            let act = obscure_action(match a % 3 { 0 => Obsc::Elided, 1 => Obsc::Encrypted((a / 3 % 4) as u32), _ => Obsc::Compressed });
            let _ = if a % 2 == 0 { env.elide_removing_set_with_action(&t, &act) } else { env.elide_revealing_set_with_action(&t, &act) };
            "ok"
        }
        69 => { let t = some_digests(env, b); let _ = if a % 2 == 0 { env.elide_removing_set(&t) } else { env.elide_revealing_set(&t) }; "ok" }
        70 => { let _ = if a % 2 == 0 { env.elide_removing_target(other) } else { env.elide_revealing_target(other) }; "ok" }
        71 => {
            let act = obscure_action(match a % 3 { 0 => Obsc::Elided, 1 => Obsc::Encrypted(1), _ => Obsc::Compressed });
            let _ = if b % 2 == 0 { env.elide_removing_array_with_action(&[other, env], &act) } else { env.elide_revealing_array_with_action(&[other, env], &act) };
            "ok"
        }
        72 => r(env.unelide(other.clone())),
        73 => r(env.compress()),
        74 => r(env.compress_subject()),
        75 => r(env.uncompress()),
        76 => r(env.uncompress_subject()),
        77 => r(env.encrypt_subject(&key)),
        78 => r(env.decrypt_subject(&key)),
        79 => { let _ = env.encrypt(&key); "ok" }
        80 => r(env.decrypt(&key)),
        // ---- salt ----
        81 => { let _ = env.add_salt(); "ok" }
        82 => r(env.add_salt_with_len((a % 40) as usize)),
        83 => { let lo = (a % 20) as usize; r(env.add_salt_in_range(lo..=lo + (b % 30) as usize)) }
        // ---- expressions / parse (date-touching: 84..=89) ----
        84 => r(Expression::try_from(env.clone())),
        85 => r(Request::try_from(env.clone())),
        86 => r(Response::try_from(env.clone())),
        87 => r(Event::<String>::try_from(env.clone())),
        88 => r(Request::try_from((env.clone(), Some(&Function::from(a % 5))))),
        89 => r(Event::<Envelope>::try_from(env.clone())),
        90 => r(Function::try_from(env.clone())),
        91 => r(Parameter::try_from(env.subject().as_leaf().unwrap_or(CBOR::null()))),
        // ---- types / attachments ----
        92 => { let _ = (env.types().len(), env.has_type(&known_values::SEED_TYPE), env.has_type_envelope("T")); "ok" }
        93 => r(env.get_type()),
        94 => r(env.check_type(&known_values::SEED_TYPE).and_then(|_| env.check_type_envelope("T"))),
        95 => { let _ = env.add_type(pred_arg(a)); "ok" }
        96 => r(env.attachments()),
        97 => r(env.attachments_with_vendor_and_conforms_to(if a % 2 == 0 { Some("com.example") } else { None }, if b % 2 == 0 { Some("https://example.com/v1") } else { None })),
        98 => r(env.attachment_with_vendor_and_conforms_to(Some("com.example"), None)),
        99 => { let _ = (r(env.attachment_payload()), r(env.attachment_vendor()), r(env.attachment_conforms_to()), r(env.validate_attachment())); "ok" }
        // ---- format family (date-touching: 100..=112) ----
        100 => { let _ = env.format(); "ok" }
        101 => { let _ = env.format_flat(); "ok" }
        102 => { let _ = env.tree_format(a % 2 == 0); "ok" }
        103 => { let _ = env.diagnostic_annotated(); "ok" }
        104 => { let _ = env.hex(); "ok" }
        105 => { let _ = env.diagnostic(); "ok" }
        106 => { let t = some_digests(env, b); let _ = env.tree_format_with_target(a % 2 == 0, &t); "ok" }
        107 => { let _ = bc_envelope::with_format_context!(|c: &FormatContext| env.summary((a % 60) as usize, c)); "ok" }
        108 => { let _ = bc_envelope::with_format_context!(|c: &FormatContext| env.format_opt(Some(c))); "ok" }
        109 => { let _ = format!("{}", env.short_id()); "ok" }
        110 => { let _ = env.format_opt(None); "ok" }
        111 => { let _ = env.tree_format_opt(a % 2 == 0, None); "ok" }
        112 => { let _ = env.hex_opt(a % 2 == 0, None); "ok" }
        113 => { let _ = env.ur_string(); "ok" }
        114 => { let _ = (env.to_cbor_data().len(), env.tagged_cbor().to_cbor_data().len()); "ok" }
        // ---- signatures ----
        115 => {
            let s = (a % keys::N_SIG_FAST as u64) as u8;
            let (sk, _) = keys::signing(s, (b % 3) as u8);
            let _ = env.add_signature_opt(&sk, keys::sig_options(s), None);
            "ok"
        }
        116 => {
            let s = (a % keys::N_SIG_FAST as u64) as u8;
            let (sk, _) = keys::signing(s, (b % 3) as u8);
            let md = SignatureMetadata::new().with_assertion(known_values::NOTE, "meta").with_assertion("n", b % 9);
            let _ = env.add_signature_opt(&sk, keys::sig_options(s), Some(md));
            "ok"
        }
        117 => { let (_, pk) = keys::signing((a % 3) as u8, (b % 3) as u8); r(env.has_signature_from(&pk)) }
        118 => { let (_, pk) = keys::signing((a % 3) as u8, (b % 3) as u8); r(env.verify_signature_from(&pk)) }
        119 => { let (_, pk) = keys::signing((a % 3) as u8, (b % 3) as u8); r(env.verify_signature_from_returning_metadata(&pk)) }
        120 => {
            let (_, p1) = keys::signing((a % 3) as u8, 0);
            let (_, p2) = keys::signing((a % 3) as u8, 1);
            let _ = r(env.has_signatures_from(&[&p1, &p2]));
            r(env.verify_signatures_from_threshold(&[&p1, &p2], Some((b % 4) as usize)))
        }
        121 => { let (_, pk) = keys::signing((a % 3) as u8, (b % 3) as u8); let _ = r(env.verify(&pk)); r(env.verify_returning_metadata(&pk)) }
        122 => { let (sk, _) = keys::signing((a % 3) as u8, (b % 3) as u8); let _ = env.sign(&sk); "ok" }
        // ---- recipients / seal ----
        123 => { let (_, pk) = keys::encap(0, (a % 3) as u8); let _ = env.add_recipient(&pk, &key); "ok" }
        124 => r(env.recipients()),
        125 => { let (_, pk) = keys::encap(0, (a % 3) as u8); let (_, p2) = keys::encap(0, (b % 3) as u8); let _ = r(env.encrypt_subject_to_recipient(&pk)); r(env.encrypt_subject_to_recipients(&[&pk, &p2])) }
        126 => { let (sk, _) = keys::encap(0, (a % 3) as u8); let _ = r(env.decrypt_subject_to_recipient(&sk)); r(env.decrypt_to_recipient(&sk)) }
        127 => {
            let (sk, spk) = keys::signing((a % 3) as u8, 0);
            let (esk, epk) = keys::encap(0, (b % 3) as u8);
            let sealed = env.seal(&sk, &epk);
            let _ = r(sealed.unseal(&spk, &esk));
            r(env.unseal(&spk, &esk))
        }
        // ---- sskr ----
        128 => {
            let spec = SSKRSpec::new(1, vec![SSKRGroupSpec::new(2, 3).unwrap()]).unwrap();
            let ck = SymmetricKey::from_data([7u8; 32]);
            match env.sskr_split(&spec, &ck) {
                Ok(shares) => { let refs: Vec<&Envelope> = shares[0].iter().take(2).collect(); r(Envelope::sskr_join(&refs)) }
                Err(_) => "err",
            }
        }
        129 => { let _ = r(Envelope::sskr_join(&[env, other])); r(Envelope::sskr_join(&[env])) }
        // ---- the empty batch, the empty set, the empty list ----
        130 => {
            let none: [Envelope; 0] = [];
            let _ = r(env.add_assertion_envelopes(&none));
            let _ = env.add_assertions(&none);
            let _ = env.add_assertions_salted(&none, a % 2 == 0);
            let _ = r(env.add_optional_assertion_envelope(None));
            let _ = r(env.add_optional_assertion_envelope_salted(None, b % 2 == 0));
            let _ = env.add_optional_assertion("nothing", None::<Envelope>);
            "ok"
        }
        131 => {
            let none: [&dyn DigestProvider; 0] = [];
            let empty = std::collections::HashSet::new();
            let _ = env.elide_removing_array(&none);
            let _ = env.elide_revealing_array(&none);
            let _ = env.elide_removing_set(&empty);
            let _ = env.elide_revealing_set(&empty);
            let _ = env.elide_set_with_action(&empty, a % 2 == 0, &ObscureAction::Compress);
            let _ = env.proof_contains_set(&empty);
            let _ = env.confirm_contains_set(&empty, other);
            "ok"
        }
        132 => {
            let nobody: [&dyn bc_components::Signer; 0] = [];
            let nokeys: [&dyn bc_components::Verifier; 0] = [];
            let _ = env.add_signatures(&nobody);
            let _ = env.add_signatures_opt(&[]);
            let _ = r(env.has_signatures_from(&nokeys));
            let _ = r(env.has_signatures_from_threshold(&nokeys, Some((a % 3) as usize)));
            let _ = r(env.has_signatures_from_threshold(&nokeys, None));
            r(env.verify_signatures_from(&nokeys))
        }
        _ => {
            let norecipients: [&dyn bc_envelope::Encrypter; 0] = [];
            let _ = r(env.encrypt_subject_to_recipients(&norecipients));
            let _ = r(env.attachments_with_vendor_and_conforms_to(Some(""), Some("")));
            let _ = r(Envelope::sskr_join(&[]));
            let _ = env.add_type("");
            "ok"
        }
    }
}

static D7_PROBES: AtomicU32 = AtomicU32::new(0);
static D7_PANICS: AtomicU32 = AtomicU32::new(0);

/// Execute a call in a sacrificial child process and return the panic location, if any.
pub fn probe_in_child(env_bytes: &[u8], other_bytes: &[u8], shape: u64, a: u64, b: u64) -> Option<Option<String>> {
    // budget per process: up to 60 child executions, and no more once three of them have panicked
    if D7_PANICS.load(Ordering::Relaxed) >= 3 || D7_PROBES.fetch_add(1, Ordering::Relaxed) >= 60 {
        return None;
    }
    let exe = std::env::current_exe().ok()?;
    let out = std::process::Command::new(exe).args(["callprobe", &hex(env_bytes), &hex(other_bytes), &shape.to_string(), &a.to_string(), &b.to_string()]).output().ok()?;
    let so = String::from_utf8_lossy(&out.stdout).to_string();
    for l in so.lines() {
        if let Some(rest) = l.strip_prefix("PANIC ") {
            D7_PANICS.fetch_add(1, Ordering::Relaxed);
            return Some(Some(rest.to_string()));
        }
        if l.starts_with("RETURNED") {
            return Some(None);
        }
    }
    None
}

/// Entry point of the sacrificial child.
pub fn callprobe_main(args: &[String]) -> i32 {
    let get = |i: usize| args.get(i).cloned().unwrap_or_default();
    let eb = crate::cv::unhex(&get(2)).unwrap_or_default();
    let ob = crate::cv::unhex(&get(3)).unwrap_or_default();
    let shape: u64 = get(4).parse().unwrap_or(0);
    let a: u64 = get(5).parse().unwrap_or(0);
    let b: u64 = get(6).parse().unwrap_or(0);
    let env = match Envelope::try_from_cbor_data(eb) {
        Ok(e) => e,
        Err(_) => return 2,
    };
    let other = Envelope::try_from_cbor_data(ob).unwrap_or_else(|_| Envelope::new(0));
    match guarded(|| call_shape(&env, &other, shape, a, b)) {
        Ok(c) => println!("RETURNED {}", c),
        Err(p) => println!("PANIC {}", p),
    }
    0
}

fn push_plain(w: &mut World, ctx: &mut Ctx, env: Envelope, what: &str) -> StepResult {
    let bytes = match guarded(|| env.to_cbor_data()) {
        Ok(b) => b,
        Err(p) => {
            ctx.violate_sig("C16.no-panic", format!("to_cbor_data panicked after {}: {}", what, p), p);
            return StepResult::Skipped;
        }
    };
    let m = match recognise(&bytes) {
        Ok(r) => r.m,
        Err(_) => M::unknown(Obsc::Some, digest_of(&env)),
    };
    // the per-document oracles of the armed property (C04: canonical and well-formed after salt / signature /
    // recipient / type / attachment / request decorations and for adversarially decoded documents)
    hist::check_doc(ctx, &env, &m, &bytes, what, false);
    ctx.t(&format!("{} -> {} {}B", what, dhex(&digest_of(&env)), bytes.len()));
    ctx.shape_mix(m.shape_hash());
    if w.docs.len() >= hist::MAX_DOCS {
        w.docs.remove(0);
    }
    w.docs.push(Doc { env, m, bytes, independent: false });
    StepResult::Produced
}

fn step(w: &mut World, ctx: &mut Ctx, st: &Step) -> StepResult {
    let d = match w.idx(st.arg(0)) {
        Some(i) => i,
        None => return StepResult::Skipped,
    };
    let env = w.docs[d].env.clone();
    macro_rules! lib {
        ($what:expr, $e:expr) => {
            match guarded(|| $e) {
                Ok(v) => v,
                Err(p) => {
                    ctx.checked();
                    ctx.violate_sig("C16.no-panic", format!("{} panicked: {}", $what, p), p.clone());
                    return StepResult::Skipped;
                }
            }
        };
    }
    match st.op.as_str() {
        // ---- decorations: produce documents whose assertions carry assertions etc. ----
        "DecoSalt" => {
            let e = lib!("add_salt", env.add_salt());
            push_plain(w, ctx, e, "DecoSalt")
        }
        "DecoAddSalted" => {
            let o = w.idx(st.arg(1)).unwrap_or(d);
            let other = w.docs[o].env.clone();
            ctx.probe("salted-assertion-built");
            let e = lib!("add_assertion_salted", env.add_assertion_salted(pred_arg(st.arg(2)), other, true));
            push_plain(w, ctx, e, "DecoAddSalted")
        }
        "DecoSign" => {
            let s = (st.arg(1) % keys::N_SIG_FAST as u64) as u8;
            let (sk, _) = keys::signing(s, (st.arg(2) % 3) as u8);
            let md = if st.arg(3) % 2 == 0 { Some(SignatureMetadata::new().with_assertion(known_values::NOTE, "meta")) } else { None };
            let e = lib!("add_signature_opt", env.add_signature_opt(&sk, keys::sig_options(s), md));
            // now and then a holder obscures the inner part of a signature-with-metadata object (the wrapped
            // `Signature [metadata]`, which keeps its digest), or the whole object of a 'signed' assertion
            let e = if st.arg(3) % 8 >= 4 {
                let objs = e.objects_for_predicate(known_values::SIGNED);
                match objs.first() {
                    Some(o) => {
                        let target = if st.arg(3) % 8 >= 6 { o.subject() } else { o.clone() };
                        let act = match st.arg(4) % 3 {
                            0 => ObscureAction::Elide,
                            1 => ObscureAction::Compress,
                            _ => ObscureAction::Encrypt(sym_key(2)),
                        };
                        ctx.probe("signature-object-partly-obscured");
                        lib!("elide_removing_target_with_action", e.elide_removing_target_with_action(&target, &act))
                    }
                    None => e,
                }
            } else {
                e
            };
            push_plain(w, ctx, e, "DecoSign")
        }
        "DecoNestedAssertion" => {
            // an assertion element that is an assertion with assertions, restored as the subject of a further node
            // (compress it, add an assertion, uncompress the subject): accepted wherever an assertion is, so every
            // query that reads predicates and objects has to cope with it
            let o = w.idx(st.arg(1)).unwrap_or(d);
            let other = w.docs[o].env.clone();
            let p = pred_arg(st.arg(2));
            let inner = Envelope::new_assertion(p.clone(), other).add_assertion("since", (st.arg(3) % 40) as u32);
            let nested = match lib!("compress / add_assertion / uncompress_subject", inner.compress().and_then(|c| c.add_assertion("seen", 1).uncompress_subject())) {
                Ok(x) => x,
                Err(_) => return StepResult::Refused,
            };
            let e = match lib!("add_assertion_envelope", env.add_assertion_envelope(nested)) {
                Ok(x) => x,
                Err(_) => return StepResult::Refused,
            };
            ctx.checked();
            ctx.probe("assertion-element-nested-two-levels");
            let q = p.clone();
            match guarded(|| {
                let _ = e.assertions_with_predicate(q.clone());
                let _ = e.assertion_with_predicate(q.clone()).is_ok();
                let _ = e.object_for_predicate(q.clone()).is_ok();
                let _ = e.objects_for_predicate(q.clone());
                let _ = e.optional_object_for_predicate(q.clone()).is_ok();
                let _ = e.extract_object_for_predicate::<String>(q.clone()).is_ok();
                let _ = e.extract_objects_for_predicate::<String>(q.clone()).is_ok();
                for a in e.assertions() {
                    let _ = (a.as_assertion(), a.as_predicate(), a.as_object(), a.try_predicate().is_ok(), a.try_object().is_ok());
                }
            }) {
                Ok(()) => {}
                Err(pn) => ctx.violate_sig("C16.no-panic", format!("a predicate / object query panicked on an envelope with a two-level nested assertion element: {}", pn), pn),
            }
            push_plain(w, ctx, e, "DecoNestedAssertion")
        }
        "DecoSaltAssertion" => {
            // give one existing assertion its own (salt) assertion: replace a[i] by a[i].add_salt()
            let asr = env.assertions();
            if asr.is_empty() {
                return StepResult::Skipped;
            }
            let a = asr[(st.arg(1) % asr.len() as u64) as usize].clone();
            let salted = lib!("add_salt", a.add_salt());
            ctx.probe("existing-assertion-decorated");
            match lib!("replace_assertion", env.replace_assertion(a, salted)) {
                Ok(e) => push_plain(w, ctx, e, "DecoSaltAssertion"),
                Err(_) => StepResult::Refused,
            }
        }
        "DecoRecipient" => {
            let (_, pk) = keys::encap(0, (st.arg(1) % 3) as u8);
            let ck = sym_key((st.arg(2) % 4) as u32);
            let e = lib!("add_recipient", env.add_recipient(&pk, &ck));
            push_plain(w, ctx, e, "DecoRecipient")
        }
        "DecoEncryptTo" => {
            let (_, pk) = keys::encap(0, (st.arg(1) % 3) as u8);
            match lib!("encrypt_subject_to_recipient", env.encrypt_subject_to_recipient(&pk)) {
                Ok(e) => push_plain(w, ctx, e, "DecoEncryptTo"),
                Err(_) => StepResult::Refused,
            }
        }
        "DecoSskr" => {
            let spec = match SSKRSpec::new(1, vec![SSKRGroupSpec::new(2, 3).unwrap()]) {
                Ok(s) => s,
                Err(_) => return StepResult::Skipped,
            };
            let ck = sym_key((st.arg(1) % 4) as u32);
            let enc = match lib!("encrypt_subject", env.encrypt_subject(&ck)) {
                Ok(e) => e,
                Err(_) => return StepResult::Refused,
            };
            match lib!("sskr_split", enc.sskr_split(&spec, &ck)) {
                Ok(shares) => {
                    let e = shares[0][(st.arg(2) % 3) as usize].clone();
                    push_plain(w, ctx, e, "DecoSskr")
                }
                Err(_) => StepResult::Refused,
            }
        }
        "DecoType" => {
            let e = lib!("add_type", env.add_type(pred_arg(st.arg(1))));
            push_plain(w, ctx, e, "DecoType")
        }
        "DecoAttachment" => {
            let o = w.idx(st.arg(1)).unwrap_or(d);
            let payload = w.docs[o].env.clone();
            let e = lib!("add_attachment", env.add_attachment(payload, "com.example", if st.arg(2) % 2 == 0 { Some("https://example.com/v1") } else { None }));
            push_plain(w, ctx, e, "DecoAttachment")
        }
        "DecoRequest" => {
            let id = ARID::from_data(sha(&st.arg(1).to_le_bytes()));
            let mut rq = Request::new(Function::from(st.arg(1) % 4), id).with_parameter(Parameter::from(st.arg(2) % 4), env.clone());
            if st.arg(2) % 2 == 0 {
                rq = rq.with_note("note").with_date(dcbor::Date::from_timestamp((st.arg(3) % 2_000_000_000) as f64));
            }
            let e: Envelope = lib!("Request->Envelope", rq.into());
            push_plain(w, ctx, e, "DecoRequest")
        }
        "DecoResponse" => {
            let id = ARID::from_data(sha(&st.arg(1).to_le_bytes()));
            let rs = match st.arg(2) % 3 {
                0 => Response::new_success(id).with_result(env.clone()),
                1 => Response::new_failure(id).with_error(env.clone()),
                _ => Response::new_early_failure().with_error(env.clone()),
            };
            let e: Envelope = lib!("Response->Envelope", rs.into());
            push_plain(w, ctx, e, "DecoResponse")
        }
        "Adversarial" => {
            // what a faulty network delivers and the decoder accepts becomes a document
            let base = w.docs[d].bytes.clone();
            let mutated: Vec<u8> = if st.arg(1) % 3 == 0 {
                match byte_mutate(&base, st.arg(2), st.arg(3), st.arg(4)) {
                    Some((b, n)) => {
                        ctx.fault(n);
                        b
                    }
                    None => return StepResult::Skipped,
                }
            } else {
                match struct_mutate(&base, st.arg(2), st.arg(3), st.arg(4)) {
                    Some(m) => {
                        ctx.fault(m.name);
                        m.bytes
                    }
                    None => return StepResult::Skipped,
                }
            };
            match decode_guarded(&mutated) {
                Decoded::Ok(e) => {
                    ctx.probe("adversarial-document-accepted");
                    push_plain(w, ctx, e, "Adversarial")
                }
                Decoded::Err => StepResult::Refused,
                Decoded::Panic(p) => {
                    ctx.checked();
                    ctx.violate_sig("C16.no-panic", format!("decoder panicked: {}", p), p);
                    StepResult::Skipped
                }
            }
        }
        "MalformedTyped" => {
            // what a decoder can deliver: a typed value (share, sealed message, signature, salt) that is tagged
            // correctly but carries too little or wrong data, under the predicate that makes the library parse it
            let n = (st.arg(2) % 4) as usize;
            let (pred, tag): (KnownValue, u64) = match st.arg(1) % 4 {
                0 => (known_values::SSKR_SHARE, 40309),
                1 => (known_values::SIGNED, 40020),
                2 => (known_values::HAS_RECIPIENT, 40019),
                _ => (known_values::SALT, 40018),
            };
            let payload = if st.arg(3) % 2 == 0 { CBOR::to_byte_string(vec![7u8; n]) } else { CBOR::from(vec![CBOR::from(1u8); n]) };
            let val = CBOR::to_tagged_value(tag, payload);
            let e = lib!("add_assertion", env.add_assertion(pred, val));
            match decode_guarded(&e.to_cbor_data()) {
                Decoded::Ok(d) => {
                    ctx.probe("malformed-typed-value-delivered");
                    push_plain(w, ctx, d, "MalformedTyped")
                }
                _ => StepResult::Refused,
            }
        }
        "ForeignShares" => {
            // share assertions as another SSKR user of the same library would attach them: valid shares that meet
            // their threshold, but of a secret that is not a 32-byte content key (SSKR splits any even length from
            // 16 to 32 bytes), on envelopes whose subject may or may not be encrypted
            let len = [16usize, 18, 24, 30, 32][(st.arg(1) % 5) as usize];
            let secret = match bc_components::SSKRSecret::new(&vec![0x5au8; len]) {
                Ok(s) => s,
                Err(_) => return StepResult::Skipped,
            };
            let spec = match if st.arg(2) % 2 == 0 { bc_components::SSKRGroupSpec::new(1, 1) } else { bc_components::SSKRGroupSpec::new(2, 3) }.and_then(|g| bc_components::SSKRSpec::new(1, vec![g])) {
                Ok(s) => s,
                Err(_) => return StepResult::Skipped,
            };
            let shares = match bc_rand::verif_with_temp_seed(crate::model::sha(&st.arg(3).to_le_bytes()), || bc_components::sskr_generate(&spec, &secret)) {
                Ok(s) => s,
                Err(_) => return StepResult::Skipped,
            };
            let carrier = if st.arg(3) % 2 == 0 { env.encrypt_subject(&sym_key(1)).unwrap_or_else(|_| env.clone()) } else { env.clone() };
            let holders: Vec<Envelope> = shares[0].iter().map(|sh| carrier.add_assertion(known_values::SSKR_SHARE, sh.clone())).collect();
            let delivered: Vec<Envelope> = holders.iter().filter_map(|h| match decode_guarded(&h.to_cbor_data()) { Decoded::Ok(d) => Some(d), _ => None }).collect();
            if delivered.is_empty() {
                return StepResult::Refused;
            }
            ctx.checked();
            ctx.probe("shares-of-a-foreign-secret");
            let refs: Vec<&Envelope> = delivered.iter().collect();
            match guarded(|| Envelope::sskr_join(&refs).is_ok()) {
                Ok(_) => {}
                Err(p) => ctx.violate_sig("C16.no-panic", format!("sskr_join panicked on threshold-meeting shares of a {}-byte secret: {}", len, p), p),
            }
            push_plain(w, ctx, delivered[0].clone(), "ForeignShares")
        }
        "DateLeaf" => {
            // a date leaf outside chrono's range, as a decoder would deliver it (known finding D7 territory)
            let vals = ["f9fc00", "f97c00", "fb7e37e43c8800759c", "1b0000ffffffffffff", "f97e00"];
            let h = format!("d8c8d8c9c1{}", vals[(st.arg(1) % vals.len() as u64) as usize]);
            match decode_guarded(&crate::cv::unhex(&h).unwrap()) {
                Decoded::Ok(e) => {
                    ctx.probe("date-leaf-out-of-range");
                    let e = if st.arg(2) % 2 == 0 { e } else { env.add_assertion("when", e) };
                    push_plain(w, ctx, e, "DateLeaf")
                }
                _ => StepResult::Refused,
            }
        }
        "Call" => {
            let o = w.idx(st.arg(1)).unwrap_or(d);
            let other = w.docs[o].env.clone();
            let (shape, a, b) = (st.arg(2), st.arg(3), st.arg(4));
            ctx.checked();
            if touches_date(shape) && (d7_prone(&w.docs[d].bytes) || d7_prone(&w.docs[o].bytes)) {
                ctx.probe("d7-prone-document-met-date-touching-call");
                // never in this process (the panic would poison the global format context); a few in a child
                if ctx.armed("C16") {
                    if let Some(Some(loc)) = probe_in_child(&w.docs[d].bytes, &w.docs[o].bytes, shape, a, b) {
                        // which of the many eligible calls gets one of the few child-process probes depends on
                        // thread timing, so the outcome is reported but never enters the trace hash
                        let was = ctx.fenced;
                        ctx.fenced = true;
                        ctx.violate_sig("C16.no-panic", format!("call shape {} panicked in a child process on a document holding an out-of-range date leaf: {}", shape % N_SHAPES, loc), loc);
                        ctx.fenced = was;
                    }
                }
                return StepResult::Produced;
            }
            match guarded(|| call_shape(&env, &other, shape, a, b)) {
                Ok(class) => {
                    ctx.t(&format!("call {} -> {}", shape % N_SHAPES, class));
                    if w.docs[d].m.assertions().iter().any(|x| x.is_node()) {
                        ctx.probe("call-on-doc-with-decorated-assertion");
                    }
                    if w.docs[d].m.has_obscured() {
                        ctx.probe("call-on-doc-with-obscured-parts");
                    }
                }
                Err(p) => {
                    ctx.violate_sig("C16.no-panic", format!("call shape {} (args {},{}) panicked: {}", shape % N_SHAPES, a, b, p), p);
                }
            }
            ctx.shape_mix(shape % N_SHAPES);
            StepResult::Produced
        }
        _ => StepResult::Skipped,
    }
}

pub fn run(scn: &Scenario, ctx: &mut Ctx) {
    let mut w = World::new(scn.cfg("leafdom", crate::gen::DOM_ALL));
    for (i, st) in scn.steps.iter().enumerate() {
        ctx.step = i;
        ctx.sim_ticks += 1;
        let r = if st.op.starts_with("Deco") || st.op == "Adversarial" || st.op == "Call" || st.op == "DateLeaf" || st.op == "MalformedTyped" || st.op == "ForeignShares" { step(&mut w, ctx, st) } else { hist::exec_step(&mut w, ctx, st) };
        if !matches!(r, StepResult::Skipped) {
            ctx.executed += 1;
        }
        if ctx.failed() && ctx.stop_at_first {
            break;
        }
    }
}

fn ds(r: &mut SimRng) -> u64 {
    if r.chance(2, 3) {
        r.below(3)
    } else {
        r.below(12)
    }
}

pub fn generate(property: &str, r: &mut SimRng, seed: u64) -> Scenario {
    let mut scn = hist::generate(property, r, seed);
    scn.family = "panics".to_string();
    let keep = r.range(2, 12) as usize;
    scn.steps.truncate(keep.max(2));
    // decorations and adversarial documents
    let nd = r.below(5);
    let decos = ["DecoNestedAssertion", "DecoSalt", "DecoAddSalted", "DecoSign", "DecoSaltAssertion", "DecoRecipient", "DecoEncryptTo", "DecoSskr", "DecoType", "DecoAttachment", "DecoRequest", "DecoResponse", "Adversarial", "Adversarial", "DecoAddSalted", "DecoSaltAssertion"];
    for _ in 0..nd {
        let mut op = *r.pick(&decos);
        // adversarially decoded documents are C16's input class only: what the decoder wrongly accepts (known
        // dcbor finding D11) is not "an envelope the library emits after public operations" in C04's sense
        if property != "C16" && op == "Adversarial" {
            op = "DecoSalt";
        }
        scn.push(op, &[ds(r), r.below(64), r.below(crate::wire::N_STRUCT_KINDS.max(8)), r.next() % 100000, r.below(1000)]);
        // interleave an obscuring step now and then so decorated documents also get obscured parts
        if r.chance(1, 3) {
            let mask = r.next() & r.next();
            scn.push("ElideSet", &[ds(r), r.below(2), r.below(3), mask, r.below(8)]);
        }
    }
    if property == "C16" && r.chance(1, 6) {
        scn.push("MalformedTyped", &[ds(r), r.below(4), r.below(4), r.below(2)]);
    }
    if property == "C16" && r.chance(1, 12) {
        scn.push("ForeignShares", &[ds(r), r.below(5), r.below(2), r.next() % 1000]);
    }
    if property == "C16" && r.chance(1, 25) {
        scn.push("DateLeaf", &[ds(r), r.below(5), r.below(2)]);
    }
    let nc = r.range(2, 12);
    for _ in 0..nc {
        scn.push("Call", &[ds(r), ds(r), r.below(N_SHAPES), r.next(), r.next()]);
    }
    scn
}
