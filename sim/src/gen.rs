//! Value generators. Every value is a deterministic function of an integer code, so that
//! scenarios stay explicit data and shrinking a code shrinks the value.

use crate::cv::CV;
use crate::rng::SimRng;

/// Hand-derived canonical encodings for a fixed table of floats (input value, expected dCBOR hex).
/// Used at start-up to cross-check the model encoder (a disagreement is a harness error).
pub const FLOAT_TABLE: &[(f64, &str)] = &[
    (1.5, "f93e00"),
    (0.1, "fb3fb999999999999a"),
    (100000.5, "fa47c35040"),
    (2.0, "02"),
    (-3.0, "22"),
    (65504.0, "19ffe0"),
    (5.960464477539063e-8, "f90001"),
    (1.0e300, "fb7e37e43c8800759c"),
    (3.4028234663852886e38, "fa7f7fffff"),
    (18446744073709551616.0, "fa5f800000"),
    (-9223372036854775808.0, "3b7fffffffffffffff"),
    (-0.5, "f9b800"),
    (0.00006103515625, "f90400"),
    (1.1, "fb3ff199999999999a"),
    (-4.25, "f9c440"),
    (16777216.5, "fb4170000008000000"),
    (f64::INFINITY, "f97c00"),
    (f64::NEG_INFINITY, "f9fc00"),
];

pub const NFC_TEXTS: &[&str] = &["é", "日本語", "ñandú", "Ω≈ç√", "😀 ok", "Ångström", "naïve café", "ß", "Привет", "한글"];

pub const BOUNDARY_U: &[u64] = &[0, 1, 23, 24, 255, 256, 65535, 65536, 4294967295, 4294967296, u64::MAX, 1000, 40000, 200, 201];

fn ascii_word(r: &mut SimRng, min: usize, max: usize) -> String {
    let n = r.range(min as u64, max as u64) as usize;
    let alphabet = b"abcdefghijklmnopqrstuvwxyzABCDEFGHIJKLMNOPQRSTUVWXYZ0123456789 -_.";
    (0..n).map(|_| alphabet[r.below(alphabet.len() as u64) as usize] as char).collect()
}

/// Leaf domain selector bits (cfg "leafdom"): which kinds of leaves a run may use.
pub const DOM_ALL: u64 = 0xffff;

/// The leaf value for a code. Codes below 8 are the trivial leaves 0..7.
pub fn leaf_cv(code: u64, dom: u64, depth: u32) -> CV {
    if code < 8 {
        return CV::U(code);
    }
    let mut r = SimRng::new(code ^ 0x1eaf);
    let dom = if dom == 0 { DOM_ALL } else { dom };
    // pick an enabled kind
    let kinds: Vec<u64> = (0..16).filter(|k| dom & (1 << k) != 0).collect();
    let kind = if kinds.is_empty() { 0 } else { kinds[r.below(kinds.len() as u64) as usize] };
    match kind {
        0 => CV::U(r.below(1000)),
        1 => CV::U(*r.pick(BOUNDARY_U)),
        2 => {
            let n = *r.pick(BOUNDARY_U);
            CV::N(n)
        }
        3 => CV::T(ascii_word(&mut r, 0, 12)),
        4 => CV::T(r.pick(NFC_TEXTS).to_string()),
        5 => {
            let n = *r.pick(&[0u64, 1, 5, 16, 31, 32, 33, 40]);
            CV::B(r.bytes(n as usize))
        }
        6 => CV::S(20 + r.below(3) as u8),
        7 => {
            let (v, _) = FLOAT_TABLE[r.below(FLOAT_TABLE.len() as u64) as usize];
            if r.chance(1, 8) {
                CV::F(f64::NAN.to_bits())
            } else {
                CV::num(v)
            }
        }
        8 if r.chance(1, 3) => {
            // a flat array of integers or of texts, unsorted and with repeats
            let n = r.range(2, 5);
            if r.chance(1, 2) {
                CV::A((0..n).map(|_| CV::U(*r.pick(&[3u64, 1, 2, 100, 10, 7, 7, 65536, 0]))).collect())
            } else {
                CV::A((0..n).map(|_| CV::T(r.pick(&["b", "a", "c", "a", "B", ""]).to_string())).collect())
            }
        }
        8 => {
            if depth >= 2 {
                return CV::U(r.below(50));
            }
            let n = r.below(4);
            CV::A((0..n).map(|_| leaf_cv(r.next() | 8, dom, depth + 1)).collect())
        }
        9 => {
            if depth >= 2 {
                return CV::T(ascii_word(&mut r, 1, 4));
            }
            let n = r.below(4);
            CV::map((0..n).map(|_| (leaf_cv(r.next() | 8, dom & 0x3f, depth + 1), leaf_cv(r.next() | 8, dom, depth + 1))).collect())
        }
        10 => {
            // date (tag 1) well inside chrono's range; integral or fractional, possibly negative
            let secs = r.below(4_000_000_000) as f64 - 1_000_000_000.0;
            if r.chance(1, 2) {
                CV::tag(1, CV::num(secs))
            } else {
                CV::tag(1, CV::num(secs + 0.5))
            }
        }
        11 => {
            // an application tag with arbitrary small content (tags with no registered meaning)
            let t = *r.pick(&[100u64, 1000, 70000, 5_000_000_000]);
            CV::tag(t, if depth >= 2 { CV::U(1) } else { leaf_cv(r.next() | 8, dom, depth + 1) })
        }
        12 => {
            // long, compressible text (now and then long enough to cross the 16-bit length head)
            let w = ascii_word(&mut r, 3, 8);
            let reps = if r.chance(1, 48) { r.range(8000, 9000) as usize } else { r.range(10, 60) as usize };
            CV::T(std::iter::repeat(w).take(reps).collect::<Vec<_>>().join(" "))
        }
        13 => {
            // long incompressible bytes (now and then at the edges of the 8- and 16-bit length heads)
            let n = if r.chance(1, 36) { *r.pick(&[255u64, 256, 257, 65535, 65536, 70000]) } else { r.range(64, 300) };
            CV::B(r.bytes(n as usize))
        }
        15 => {
            // a tag the library itself gives a meaning to (known value, digest, encrypted, compressed, function,
            // parameter, salt, ...), here as plain leaf content: fitting and unfitting payloads
            let t = *r.pick(&[40000u64, 40000, 40001, 40002, 40003, 40006, 40007, 40018, 40004, 40005, 40026, 40309, 37, 32]);
            let inner = match r.below(5) {
                0 => CV::U(r.below(40)),
                1 => CV::U(*r.pick(BOUNDARY_U)),
                2 => CV::B(r.bytes(32)),
                3 => CV::T(ascii_word(&mut r, 0, 6)),
                _ => CV::A(vec![CV::B(r.bytes(12)), CV::U(r.below(5))]),
            };
            CV::tag(t, inner)
        }
        _ => {
            // an embedded envelope as a leaf value (#6.200 inside the leaf)
            let inner = if depth >= 2 { CV::U(r.below(9)) } else { leaf_cv(r.next() | 8, dom & 0x3f, depth + 1) };
            if r.chance(1, 2) {
                CV::tag(200, CV::tag(201, inner))
            } else {
                CV::tag(200, CV::A(vec![CV::tag(201, inner), CV::M(vec![(CV::tag(201, CV::text("k")), CV::tag(201, CV::U(1)))])]))
            }
        }
    }
}

/// A text leaf carrying a unique 16-hex-char marker derived from the code (C03 residue scan).
pub fn marker_of(code: u64) -> String {
    let x = crate::rng::mix(&[code, 0x6d61726b]);
    format!("{:016x}", x)
}

pub fn marked_leaf_cv(code: u64) -> CV {
    let m = marker_of(code);
    match code % 3 {
        0 => CV::T(format!("t-{}", m)),
        1 => CV::B(m.as_bytes().to_vec()),
        _ => CV::A(vec![CV::T(m), CV::U(code % 100)]),
    }
}
