//! envsim — deterministic multi-party document-lifecycle simulator for bc-envelope.
//!
//!   envsim run <Cxx> <quick|thorough>      batch of seeded runs, evidence, violations (exit 0/1/2)
//!   envsim replay <file>                   re-execute a replay file (exit 1 if it reproduces)
//!   envsim hashes <Cxx> <tier> <n> <workers>   print per-run trace hashes (determinism proof)
//!   envsim show <Cxx> <tier> <run index>   print the scenario and full trace of one run

mod bridge;
mod core;
mod cv;
mod driver;
mod ext;
mod gen;
mod hist;
mod keys;
mod model;
mod net;
mod osrand;
mod panics;
mod parties;
mod replica;
mod rng;
mod routes;
mod tamper;
mod wire;

use std::cell::RefCell;

thread_local! {
    pub static LAST_PANIC_LOC: RefCell<String> = const { RefCell::new(String::new()) };
}

fn install_panic_hook() {
    std::panic::set_hook(Box::new(|info| {
        let loc = info.location().map(|l| format!("{}:{}", l.file(), l.line())).unwrap_or_default();
        LAST_PANIC_LOC.with(|l| *l.borrow_mut() = loc);
    }));
}

fn main() {
    install_panic_hook();
    // documented precondition of ur_string()/format(): the tags must be registered once per process
    bc_envelope::register_tags();
    let args: Vec<String> = std::env::args().collect();
    let code = match driver::main(&args) {
        Ok(c) => c,
        Err(e) => {
            eprintln!("HARNESS-ERROR: {}", e);
            2
        }
    };
    std::process::exit(code);
}

/// Start-up cross-check of the model encoder: hand-derived float encodings, and agreement with
/// dcbor on the generator's leaf domain. A disagreement is a harness error (exit 2), never a finding.
pub fn cv_selfcheck() -> Result<(), String> {
    for (v, hexs) in gen::FLOAT_TABLE {
        let got = cv::hex(&cv::CV::num(*v).encode());
        if &got != hexs {
            return Err(format!("model encoder: float {} encodes to {} but the hand-derived encoding is {}", v, got, hexs));
        }
    }
    for code in 0..3000u64 {
        let c = gen::leaf_cv(code * 7919 + 3, gen::DOM_ALL, 0);
        let mine = c.encode();
        let theirs = bridge::cv_to_cbor(&c).to_cbor_data();
        if mine != theirs {
            return Err(format!("model encoder disagrees with dcbor on leaf code {}: {} vs {}", code * 7919 + 3, cv::hex(&mine), cv::hex(&theirs)));
        }
        let item = cv::Item::decode(&mine).map_err(|e| format!("model reader rejects its own writer's output: {:?}", e))?;
        if !item.is_deterministic() || item.encode() != mine {
            return Err(format!("model reader/writer disagree on {}", cv::hex(&mine)));
        }
    }
    Ok(())
}

/// Probes (rare branches) each property's workload is expected to reach; a probe stuck at zero
/// is listed under probe_gaps in the evidence (it never changes the exit code).
pub fn expected_probes(property: &str) -> Vec<&'static str> {
    match property {
        "C01" => vec!["node-subject-node", "known-value-predicate", "node>=3-assertions", "assertion-with-assertions", "leaf-32-byte-string", "replace-subject-with-node", "assertion-decorated", "route-plain", "route-shuffled-repeats", "route-superset-remove", "route-replace-subject", "route-wrap-decode-detours", "route-crypto-compress-detours", "route-elide-unelide", "route-ur-hops"],
        "C02" => vec!["obscure-already-obscured-doc", "target-is-root", "empty-target-revealing"],
        "C03" => vec!["hidden-marker-scanned", "target-wrapped", "target-whole-assertion", "target-inside-wrapped", "target-is-root", "wrong-content-refused"],
        "C04" => vec!["remove-last-assertion", "duplicate-add", "replace-subject-with-node", "obscured-in-assertion-slot"],
        "C05" => vec!["rt-elided", "rt-encrypted", "rt-compressed", "rt-leaf-int", "rt-leaf-text", "rt-leaf-bytes", "rt-leaf-float", "rt-leaf-simple", "rt-leaf-array", "rt-leaf-map", "rt-leaf-tagged", "rt-known", "rt-wrapped", "rt-node-subject-node", "fault-free-reload", "damaged-slot-rejected"],
        "C07" => vec!["remove-last-assertion", "duplicate-add", "three-or-more-distinct-orders", "duplicate-delivered", "collection-with-4-or-more-elements", "all-permutations-enumerated"],
        _ => vec![],
    }
}
