//! Engine 1 core: the document-lifecycle interpreter. Executes an explicit step list against
//! the real library and the reference model in lock-step; the armed property's oracles are
//! evaluated after every step. Families built on it: C01, C02, C04, C05, C07 (and the
//! document source for C16).

use crate::bridge::*;
use crate::core::{Ctx, Scenario, Step};
use crate::cv::{hex, CV};
use crate::gen;
use crate::model::{dhex, recognise, MKind, Obsc, D, M};
use crate::rng::SimRng;
use bc_components::DigestProvider;
use bc_envelope::prelude::*;
use std::collections::BTreeSet;

pub struct Doc {
    pub env: Envelope,
    pub m: M,
    /// encoding taken when the document was created; re-checked after every later step
    /// that used it as an input (immutability, C07)
    pub bytes: Vec<u8>,
    /// false when the model was re-synchronised from the library's own output
    pub independent: bool,
}

pub struct World {
    pub docs: Vec<Doc>,
    pub dom: u64,
}

pub const MAX_DOCS: usize = 24;
pub const MAX_ELEMENTS: usize = 400;

impl World {
    pub fn new(dom: u64) -> World {
        World { docs: vec![], dom }
    }
    pub fn idx(&self, a: u64) -> Option<usize> {
        if self.docs.is_empty() {
            None
        } else {
            // distance from the most recent document: small arguments address recent documents
            Some(self.docs.len() - 1 - (a % self.docs.len() as u64) as usize)
        }
    }
}

/// Result of interpreting one step.
pub enum StepResult {
    /// a new document was produced (already checked and pushed)
    Produced,
    /// the library refused (Err) where the model allowed or required that
    Refused,
    /// the step was meaningless in this state (e.g. no documents yet) and was skipped
    Skipped,
}

fn resync(env: &Envelope) -> Option<M> {
    recognise(&env.to_cbor_data()).ok().map(|r| r.m)
}

/// After producing `env` with model prediction `m` (None = outcome not fixed by any property),
/// run the per-document oracles and push the document.
fn push_doc(w: &mut World, ctx: &mut Ctx, env: Envelope, m: Option<M>, what: &str) -> StepResult {
    let bytes = match guarded(|| env.to_cbor_data()) {
        Ok(b) => b,
        Err(p) => {
            ctx.violate_sig("C16.no-panic", format!("to_cbor_data panicked after {}: {}", what, p), p);
            ctx.violate("C04.encodes", format!("to_cbor_data panicked after {}", what));
            return StepResult::Skipped;
        }
    };
    let (m, independent) = match m {
        Some(m) => (m, true),
        None => match resync(&env) {
            Some(m) => (m, false),
            None => {
                ctx.violate("C04.recognised", format!("{}: library output is not a well-formed envelope encoding: {:?}", what, recognise(&bytes).err()));
                return StepResult::Skipped;
            }
        },
    };
    check_doc(ctx, &env, &m, &bytes, what, independent);
    // the hash of the encoding covers ciphertexts, nonces, salts and signatures: the trace proves that
    // the library's entropy really is the seeded stream
    ctx.t(&format!("{} -> {} {}B enc={} shape={:x}", what, dhex(&m.digest()), bytes.len(), dhex(&crate::model::sha(&bytes)), m.shape_hash()));
    ctx.shape_mix(m.shape_hash());
    if w.docs.len() >= MAX_DOCS {
        w.docs.remove(0);
    }
    w.docs.push(Doc { env, m, bytes, independent });
    StepResult::Produced
}

/// The per-document oracles. Each is attributed to the property whose statement it is.
pub fn check_doc(ctx: &mut Ctx, env: &Envelope, m: &M, bytes: &[u8], what: &str, independent: bool) {
    // C01: digest tree equals the spec digests at every position (model computes them from the draft)
    if ctx.armed("C01") && independent {
        ctx.checked();
        if let Err(e) = compare_env(env, m, "") {
            ctx.violate("C01.digest-at-position", format!("after {}: {}", what, e));
        }
        // accessors report the same digests
        let s = env.subject();
        if digest_of(&s) != m.subject().digest() {
            ctx.violate("C01.subject-digest", format!("after {}: subject() digest differs from spec", what));
        }
        let la: Vec<D> = env.assertions().iter().map(digest_of).collect();
        let ma: Vec<D> = m.assertions().iter().map(|a| a.digest()).collect();
        if la != ma {
            ctx.violate("C01.assertion-digests", format!("after {}: assertions() digests differ from spec", what));
        }
        // the walk reports every position's digest (compared as multisets: the order in which siblings are
        // visited is not part of this property)
        let mut walked = walk_digests(env);
        let mut expect: Vec<D> = m.positions().iter().map(|p| p.digest()).collect();
        walked.sort();
        expect.sort();
        if walked != expect {
            ctx.violate("C01.walk-digests", format!("after {}: walk visits {} positions, spec tree has {} (or digests differ)", what, walked.len(), expect.len()));
        }
        probe_shapes(ctx, m);
    }
    // C04: well-formed by case() and by the independent recogniser on the bytes
    if ctx.armed("C04") {
        ctx.checked();
        if let Err(e) = wellformed_by_case(env, "") {
            ctx.violate("C04.structure", format!("after {}: {}", what, e));
        }
        match recognise(bytes) {
            Ok(r) => {
                if r.legacy_leaf {
                    ctx.violate("C04.canonical", format!("after {}: emitted the deprecated leaf tag 24", what));
                }
                if r.m.digest() != digest_of(env) {
                    ctx.violate("C04.digests-agree", format!("after {}: digest recomputed from bytes {} != reported {}", what, dhex(&r.m.digest()), dhex(&digest_of(env))));
                } else if independent && !r.m.same_structure(m) {
                    ctx.violate("C04.recognised-structure", format!("after {}: structure recognised from bytes differs from model", what));
                }
            }
            Err(e) => ctx.violate("C04.recognised", format!("after {}: emitted bytes rejected by the grammar recogniser: {:?} ({})", what, e, hex(&bytes[..bytes.len().min(64)]))),
        }
        probe_shapes(ctx, m);
    }
    // C07 (determinism of bytes): model-predicted encoding, where predictable
    if (ctx.armed("C07") || ctx.armed("C05")) && independent {
        if let Some(mb) = m.tagged_bytes() {
            ctx.checked();
            if mb != bytes {
                let id = if ctx.armed("C07") { "C07.model-bytes" } else { "C05.model-bytes" };
                ctx.violate(id, format!("after {}: encoding {} differs from spec encoding {}", what, hex(&bytes[..bytes.len().min(48)]), hex(&mb[..mb.len().min(48)])));
            }
        }
    }
}

fn probe_shapes(ctx: &mut Ctx, m: &M) {
    for p in m.positions() {
        if let (Obsc::Clear, MKind::Node { subject, assertions }) = (p.obsc(), p.kind()) {
            if subject.is_node() {
                ctx.probe("node-subject-node");
            }
            if assertions.len() >= 3 {
                ctx.probe("node>=3-assertions");
            }
            if assertions.iter().any(|a| a.is_node()) {
                ctx.probe("assertion-with-assertions");
            }
            if assertions.iter().any(|a| a.is_obscured()) {
                ctx.probe("obscured-in-assertion-slot");
            }
        }
        if let (Obsc::Clear, MKind::Assertion(p2, _)) = (p.obsc(), p.kind()) {
            if matches!(p2.kind(), MKind::Known(_)) {
                ctx.probe("known-value-predicate");
            }
        }
        if let (Obsc::Clear, MKind::Leaf(CV::B(b))) = (p.obsc(), p.kind()) {
            if b.len() == 32 {
                ctx.probe("leaf-32-byte-string");
            }
        }
    }
}

/// Pairs (n1, n2) such that the assertions "k": n1 and "k": n2 have digests with the same first four bytes (and
/// n1's digest is the greater). Found once per process by a birthday search over the model's digests.
pub fn prefix_twins() -> &'static Vec<(u64, u64)> {
    static TWINS: std::sync::OnceLock<Vec<(u64, u64)>> = std::sync::OnceLock::new();
    TWINS.get_or_init(|| {
        let pk = M::leaf(CV::text("k"));
        let mut seen: std::collections::BTreeMap<[u8; 4], (u64, D)> = std::collections::BTreeMap::new();
        let mut out = vec![];
        for n in 0..400_000u64 {
            let d = M::assertion(pk.clone(), M::leaf(CV::U(n))).digest();
            let key = [d[0], d[1], d[2], d[3]];
            if let Some((m, dm)) = seen.get(&key) {
                out.push(if *dm > d { (*m, n) } else { (n, *m) });
                if out.len() >= 8 {
                    break;
                }
            } else {
                seen.insert(key, (n, d));
            }
        }
        out
    })
}

pub fn walk_digests(env: &Envelope) -> Vec<D> {
    let out = std::cell::RefCell::new(Vec::new());
    let visitor = |e: Envelope, _l: usize, _t: EdgeType, _p: Option<&()>| -> Option<&()> {
        out.borrow_mut().push(digest_of(&e));
        None
    };
    env.walk(false, &visitor);
    out.into_inner()
}

/// Inputs of a step must be unchanged afterwards (C07 immutability).
fn check_immutable(w: &World, ctx: &mut Ctx, used: &[usize], what: &str) {
    if !ctx.armed("C07") {
        return;
    }
    for &i in used {
        if let Some(d) = w.docs.get(i) {
            ctx.checked();
            let now = d.env.to_cbor_data();
            if now != d.bytes {
                ctx.violate("C07.immutable", format!("{} altered its input document #{}", what, i));
            }
        }
    }
}

fn select_targets(m: &M, mask: u64, extra: u64) -> BTreeSet<D> {
    let list = m.digest_list();
    let mut t = BTreeSet::new();
    for (i, d) in list.iter().enumerate() {
        if i < 60 && mask & (1 << i) != 0 {
            t.insert(*d);
        }
    }
    if extra & 1 != 0 {
        // a digest that does not occur
        t.insert(crate::model::sha(&extra.to_le_bytes()));
    }
    t
}

fn action_of(code: u64, key: u64) -> Obsc {
    match code % 3 {
        0 => Obsc::Elided,
        1 => Obsc::Encrypted((key % 4) as u32),
        _ => Obsc::Compressed,
    }
}

/// C02: parallel walk of the original and the transformed envelope, through `case()` only:
/// every element still present has the digest of the element at the same position.
pub fn check_positions_preserved(ctx: &mut Ctx, before: &Envelope, after: &Envelope, what: &str) {
    use bc_envelope::base::envelope::EnvelopeCase as C;
    ctx.checked();
    fn rec(b: &Envelope, a: &Envelope, path: &str) -> Result<(), String> {
        if digest_of(b) != digest_of(a) {
            return Err(format!("{}: digest {} became {}", path, dhex(&digest_of(b)), dhex(&digest_of(a))));
        }
        match (b.case(), a.case()) {
            (C::Node { subject: bs, assertions: ba, .. }, C::Node { subject: as_, assertions: aa, .. }) => {
                rec(bs, as_, &format!("{}/s", path))?;
                if ba.len() != aa.len() {
                    return Err(format!("{}: assertion count {} became {}", path, ba.len(), aa.len()));
                }
                for (i, (x, y)) in ba.iter().zip(aa.iter()).enumerate() {
                    rec(x, y, &format!("{}/a{}", path, i))?;
                }
                Ok(())
            }
            (C::Wrapped { envelope: x, .. }, C::Wrapped { envelope: y, .. }) => rec(x, y, &format!("{}/w", path)),
            (C::Assertion(x), C::Assertion(y)) => {
                rec(&x.predicate(), &y.predicate(), &format!("{}/p", path))?;
                rec(&x.object(), &y.object(), &format!("{}/o", path))
            }
            // the transformed side is obscured here (or both are leaves): nothing below to compare
            (_, C::Elided(_)) | (_, C::Encrypted(_)) | (_, C::Compressed(_)) => Ok(()),
            (C::Leaf { cbor: x, .. }, C::Leaf { cbor: y, .. }) => {
                if x.to_cbor_data() != y.to_cbor_data() {
                    return Err(format!("{}: leaf content changed", path));
                }
                Ok(())
            }
            (C::KnownValue { value: x, .. }, C::KnownValue { value: y, .. }) => {
                if x.value() != y.value() {
                    return Err(format!("{}: known value changed", path));
                }
                Ok(())
            }
            (C::Elided(_), _) | (C::Encrypted(_), _) | (C::Compressed(_), _) => Err(format!("{}: an obscured element became un-obscured by an obscuring operation", path)),
            _ => Err(format!("{}: case changed although the element is still present", path)),
        }
    }
    if let Err(e) = rec(before, after, "") {
        ctx.violate("C02.position-digest", format!("{}: {}", what, e));
    }
}

/// Execute one step.
pub fn exec_step(w: &mut World, ctx: &mut Ctx, st: &Step) -> StepResult {
    let a0 = st.arg(0);
    let a1 = st.arg(1);
    let a2 = st.arg(2);
    let a3 = st.arg(3);
    let a4 = st.arg(4);
    macro_rules! doc {
        ($a:expr) => {
            match w.idx($a) {
                Some(i) => i,
                None => return StepResult::Skipped,
            }
        };
    }
    // A panic is C16's statement in general. Where the armed property itself promises a RESULT for the operation that
    // panicked (C02: "the result has the same root digest", C13 / C08: "returns an envelope identical to the
    // original", C07: the add / remove / wrap laws, C03: the elision, C05: the decoding), no result is a violation of
    // that property too.
    let promised: Option<&'static str> = {
        let op = st.op.as_str();
        let obscuring = matches!(op, "ElideSet" | "ElideWhole" | "Compress" | "CompressSubject" | "EncryptSubject" | "Encrypt");
        if ctx.armed("C02") && obscuring {
            Some("C02.operation-panics")
        } else if ctx.armed("C03") && matches!(op, "ElideSet" | "ElideWhole" | "Unelide") {
            Some("C03.operation-panics")
        } else if ctx.armed("C13") && matches!(op, "Compress" | "CompressSubject" | "Uncompress" | "UncompressSubject") {
            Some("C13.operation-panics")
        } else if ctx.armed("C08") && matches!(op, "EncryptSubject" | "Encrypt" | "DecryptSubject" | "Decrypt") {
            Some("C08.operation-panics")
        } else if ctx.armed("C07") && matches!(op, "AddAssertion" | "AddEnvelope" | "AddBatch" | "AddText" | "AddMany" | "Remove" | "AddRemove" | "Replace" | "ReplaceSubject" | "Wrap" | "Unwrap") {
            Some("C07.operation-panics")
        } else if ctx.armed("C05") && op == "Roundtrip" {
            Some("C05.operation-panics")
        } else {
            None
        }
    };
    macro_rules! lib {
        ($what:expr, $e:expr) => {
            match guarded(|| $e) {
                Ok(v) => v,
                Err(p) => {
                    ctx.violate_sig("C16.no-panic", format!("{} panicked: {}", $what, p), p.clone());
                    if let Some(id) = promised {
                        ctx.checked();
                        ctx.violate_sig(id, format!("{} panicked instead of returning the result the property promises: {}", $what, p), p.clone());
                    }
                    return StepResult::Skipped;
                }
            }
        };
    }
    match st.op.as_str() {
        "NewLeaf" => {
            let cv = gen::leaf_cv(a0, w.dom, 0);
            let env = lib!("Envelope::new(leaf)", make_leaf_env(&cv, a1));
            push_doc(w, ctx, env, Some(M::leaf(cv)), "NewLeaf")
        }
        "NewMarked" => {
            let cv = gen::marked_leaf_cv(a0);
            let env = lib!("Envelope::new(leaf)", make_leaf_env(&cv, a1));
            push_doc(w, ctx, env, Some(M::leaf(cv)), "NewMarked")
        }
        "NewKnown" => {
            let n = if a0 % 4 == 0 { *SimRng::new(a0).pick(gen::BOUNDARY_U) } else { a0 % 30 };
            // a display name given to a known value is no part of its identity
            let kv = match a0 % 3 {
                1 => KnownValue::new_with_name(n, format!("name-{}", a0 % 7)),
                _ => KnownValue::new(n),
            };
            let env = lib!("Envelope::new(KnownValue)", Envelope::new(kv));
            push_doc(w, ctx, env, Some(M::known(n)), "NewKnown")
        }
        "NewAssertion" => {
            let (p, o) = (doc!(a0), doc!(a1));
            let env = lib!("new_assertion", Envelope::new_assertion(w.docs[p].env.clone(), w.docs[o].env.clone()));
            let m = M::assertion(w.docs[p].m.clone(), w.docs[o].m.clone());
            let ind = w.docs[p].independent && w.docs[o].independent;
            check_immutable(w, ctx, &[p, o], "new_assertion");
            push_doc(w, ctx, env, if ind { Some(m) } else { None }, "NewAssertion")
        }
        "AddAssertion" => {
            let (d, p, o) = (doc!(a0), doc!(a1), doc!(a2));
            // the same addition through any of the entry points that promise it (a3 selects; most runs use the plain one)
            let (de, pe, oe) = (w.docs[d].env.clone(), w.docs[p].env.clone(), w.docs[o].env.clone());
            let entry = a3 % 16;
            let env: Result<Envelope, String> = lib!(
                "add_assertion (entry point variant)",
                match entry {
                    8 => Ok(de.add_assertion_salted(pe, oe, false)),
                    9 => Ok(de.add_optional_assertion(pe, Some(oe))),
                    10 => Ok(de.add_assertion_if(true, pe, oe)),
                    11 => Ok(de.add_assertions(&[Envelope::new_assertion(pe, oe)])),
                    12 => Ok(de.add_assertions_salted(&[Envelope::new_assertion(pe, oe)], false)),
                    13 => de.add_assertion_envelopes(&[Envelope::new_assertion(pe, oe)]).map_err(|e| e.to_string()),
                    14 => de.add_assertion_envelope_salted(Envelope::new_assertion(pe, oe), false).map_err(|e| e.to_string()),
                    15 => de.add_optional_assertion_envelope_salted(Some(Envelope::new_assertion(pe, oe)), false).map_err(|e| e.to_string()),
                    _ => Ok(de.add_assertion(pe, oe)),
                }
            );
            let env = match env {
                Ok(e) => e,
                Err(e) => {
                    ctx.checked();
                    ctx.violate("C07.add-refused", format!("an assertion built by new_assertion was refused by entry point variant {}: {}", entry, e));
                    return StepResult::Refused;
                }
            };
            if entry >= 8 {
                ctx.probe("add-through-alternative-entry-point");
            }
            let am = M::assertion(w.docs[p].m.clone(), w.docs[o].m.clone());
            let m = w.docs[d].m.add_assertion_m(&am);
            let ind = w.docs[d].independent && w.docs[p].independent && w.docs[o].independent;
            check_immutable(w, ctx, &[d, p, o], "add_assertion");
            if ctx.armed("C04") || ctx.armed("C07") {
                if w.docs[d].m.assertions().iter().any(|x| x.digest() == am.digest()) {
                    ctx.probe("duplicate-add");
                    ctx.checked();
                    if env.to_cbor_data() != w.docs[d].bytes {
                        let id = if ctx.armed("C04") { "C04.dedupe" } else { "C07.idempotent" };
                        ctx.violate(id, "adding an assertion whose digest is already present changed the envelope".to_string());
                    }
                }
            }
            push_doc(w, ctx, env, if ind { Some(m) } else { None }, "AddAssertion")
        }
        "AddText" => {
            // a text object through the convenience form that skips empty strings, and through the general form
            const TEXTS: [&str; 8] = ["", "x", " ", " padded ", "trailing ", "\tTab", "two  spaces", "caf\u{e9} "];
            let (d, p) = (doc!(a0), doc!(a1));
            let text = TEXTS[(a2 % 8) as usize];
            let (de, pe) = (w.docs[d].env.clone(), w.docs[p].env.clone());
            let env = lib!("add_nonempty_string_assertion", if a3 % 3 == 0 && !text.is_empty() { de.add_assertion(pe, text) } else { de.add_nonempty_string_assertion(pe, text) });
            let m = if text.is_empty() { w.docs[d].m.clone() } else { w.docs[d].m.add_assertion_m(&M::assertion(w.docs[p].m.clone(), M::leaf(CV::text(text)))) };
            let ind = w.docs[d].independent && w.docs[p].independent;
            ctx.probe("text-object-through-nonempty-form");
            check_immutable(w, ctx, &[d, p], "add_nonempty_string_assertion");
            push_doc(w, ctx, env, if ind { Some(m) } else { None }, "AddText")
        }
        "AddTyped" => {
            // assertions the extensions build from typed values, against the structure the specification gives them:
            // a salt of known bytes ('salt': 40018(bytes)), once or twice over; an attachment
            // ('attachment': {payload} ['vendor': v, and 'conformsTo': c only when one is given])
            let (d, p) = (doc!(a0), doc!(a1));
            let (de, pe) = (w.docs[d].env.clone(), w.docs[p].env.clone());
            let mut vr = SimRng::new(a3);
            let (env, m, ind, what) = match a2 % 3 {
                0 => {
                    let salt_bytes = |vr: &mut SimRng| -> Vec<u8> { (0..vr.range(8, 23)).map(|_| vr.below(256) as u8).collect() };
                    let (s1, s2) = (salt_bytes(&mut vr), salt_bytes(&mut vr));
                    let twice = a3 % 2 == 0;
                    let env = lib!("add_salt_instance", {
                        let e = de.add_salt_instance(bc_components::Salt::from_data(s1.clone()));
                        if twice {
                            e.add_salt_instance(bc_components::Salt::from_data(s2.clone()))
                        } else {
                            e
                        }
                    });
                    let salt_m = |b: &Vec<u8>| M::assertion(M::known(known_values::SALT.value()), M::leaf(CV::tag(40018, CV::B(b.clone()))));
                    let mut m = w.docs[d].m.add_assertion_m(&salt_m(&s1));
                    if twice {
                        m = m.add_assertion_m(&salt_m(&s2));
                        ctx.probe("salted-twice");
                    }
                    (env, m, w.docs[d].independent, "add_salt_instance")
                }
                k => {
                    let vendor = ["com.example", "", "org.vendor.x"][(a3 % 3) as usize];
                    let conforms = if k == 1 { None } else { Some(["https://example.com/v1", ""][(a3 / 3 % 2) as usize]) };
                    let env = lib!("add_attachment", if a3 / 6 % 2 == 0 { de.add_attachment(pe.clone(), vendor, conforms) } else { de.add_assertion_envelope(Envelope::new_attachment(pe.clone(), vendor, conforms)).map_err(|e| e.to_string()).unwrap_or_else(|_| de.clone()) });
                    let mut inner = vec![M::assertion(M::known(known_values::VENDOR.value()), M::leaf(CV::text(vendor)))];
                    if let Some(c) = conforms {
                        inner.push(M::assertion(M::known(known_values::CONFORMS_TO.value()), M::leaf(CV::text(c))));
                    } else {
                        ctx.probe("attachment-without-conforms-to");
                    }
                    let att = M::assertion(M::known(known_values::ATTACHMENT.value()), M::node(M::wrapped(w.docs[p].m.clone()), inner));
                    (env, w.docs[d].m.add_assertion_m(&att), w.docs[d].independent && w.docs[p].independent, "add_attachment")
                }
            };
            check_immutable(w, ctx, &[d, p], what);
            push_doc(w, ctx, env, if ind { Some(m) } else { None }, "AddTyped")
        }
        "NodeInNode" => {
            // the public route to an envelope whose subject is itself an envelope with assertions: compress the whole,
            // add an assertion to the compressed element, uncompress the subject again
            let (d, p, o) = (doc!(a0), doc!(a1), doc!(a2));
            let (de, pe, oe) = (w.docs[d].env.clone(), w.docs[p].env.clone(), w.docs[o].env.clone());
            let r = lib!("compress / add_assertion / uncompress_subject", de.compress().and_then(|c| c.add_assertion(pe, oe).uncompress_subject()).map_err(|e| e.to_string()));
            let ind = w.docs[d].independent && w.docs[p].independent && w.docs[o].independent;
            check_immutable(w, ctx, &[d, p, o], "compress / add_assertion / uncompress_subject");
            match r {
                Ok(env) => {
                    let m = M::node(w.docs[d].m.clone(), vec![M::assertion(w.docs[p].m.clone(), w.docs[o].m.clone())]);
                    if w.docs[d].m.is_node() {
                        ctx.probe("node-subject-node");
                    }
                    push_doc(w, ctx, env, if ind && w.docs[d].m.obsc().is_clear() { Some(m) } else { None }, "NodeInNode")
                }
                Err(_) => StepResult::Refused,
            }
        }
        "TypedElement" => {
            // an obscured element handed over as a typed value (what another program using bc-components would pass):
            // a Compressed or EncryptedMessage with, without, or with an unreadable declared digest. Whatever
            // Envelope::try_from accepts must be a well-formed envelope that its own decoder accepts again.
            let d = doc!(a0);
            let payload = w.docs[d].env.tagged_cbor().to_cbor_data();
            let dg = bc_components::Digest::from_data(digest_of(&w.docs[d].env));
            if a1 % 6 == 5 {
                // a compressed element from a peer that declares another digest than its content has, placed as the
                // subject of a node: opening it must fail, or at least never yield a node whose digest disagrees with
                // its children
                let wrong = bc_components::Digest::from_data(crate::model::sha(&a2.to_le_bytes()));
                let r = lib!("try_from(Compressed) / add_assertion / uncompress_subject", Envelope::try_from(bc_components::Compressed::from_uncompressed_data(payload.clone(), Some(wrong))).map(|c| c.add_assertion("held by", 1)).and_then(|n| n.uncompress_subject()).map_err(|e| e.to_string()));
                if ctx.armed("C04") {
                    ctx.checked();
                    ctx.probe("misdeclared-typed-element");
                    if let Ok(x) = &r {
                        if let Ok(Err(why)) = guarded(|| wellformed_by_case(x, "")) {
                            ctx.violate("C04.typed-element", format!("uncompress_subject opened a compressed subject that declares another digest than its content has, and returned a malformed envelope: {}", why));
                        }
                    }
                }
                return StepResult::Refused;
            }
            let made: Result<Envelope, String> = lib!("Envelope::try_from(typed element)", match a1 % 5 {
                0 => Envelope::try_from(bc_components::Compressed::from_uncompressed_data(payload.clone(), Some(dg.clone()))).map_err(|e| e.to_string()),
                1 => Envelope::try_from(bc_components::Compressed::from_uncompressed_data(payload.clone(), None)).map_err(|e| e.to_string()),
                2 => Envelope::try_from(sym_key(1).encrypt_with_digest(payload.clone(), &dg, None::<bc_components::Nonce>)).map_err(|e| e.to_string()),
                3 => Envelope::try_from(sym_key(1).encrypt(payload.clone(), None::<Vec<u8>>, None::<bc_components::Nonce>)).map_err(|e| e.to_string()),
                _ => Envelope::try_from(sym_key(1).encrypt(payload.clone(), Some(vec![0x58u8, 0x20, 1, 2, 3]), None::<bc_components::Nonce>)).map_err(|e| e.to_string()),
            });
            match made {
                Ok(env) => {
                    if ctx.armed("C04") {
                        ctx.checked();
                        ctx.probe("typed-element-accepted");
                        let ok = guarded(|| {
                            wellformed_by_case(&env, "")?;
                            let bytes = env.to_cbor_data();
                            Envelope::try_from_cbor_data(bytes).map(|_| ()).map_err(|e| format!("its own encoding is rejected by the decoder: {}", e))
                        });
                        match ok {
                            Ok(Ok(())) => {}
                            Ok(Err(x)) => ctx.violate("C04.typed-element", format!("Envelope::try_from accepted a typed element (case {}) that is not a well-formed envelope: {}", a1 % 5, x)),
                            Err(p) => ctx.violate_sig("C04.typed-element", format!("Envelope::try_from accepted a typed element (case {}) whose structure cannot even be inspected: {}", a1 % 5, p), p),
                        }
                    }
                    if a1 % 5 == 0 || a1 % 5 == 2 {
                        let m = w.docs[d].m.with_obsc(if a1 % 5 == 0 { Obsc::Compressed } else { Obsc::Encrypted(1) });
                        let ind = w.docs[d].independent;
                        push_doc(w, ctx, env, if ind && w.docs[d].m.obsc().is_clear() { Some(m) } else { None }, "TypedElement")
                    } else {
                        StepResult::Refused
                    }
                }
                Err(_) => {
                    ctx.probe("typed-element-refused");
                    StepResult::Refused
                }
            }
        }
        "AddTwins" => {
            // two assertions whose digests agree in their first bytes (found by a birthday search at start-up): any
            // ordering that looks at a truncated digest treats them as equal
            let d = doc!(a0);
            let twins = prefix_twins();
            if twins.is_empty() {
                return StepResult::Skipped;
            }
            let (n1, n2) = twins[(a1 % twins.len() as u64) as usize];
            let order = if a3 % 2 == 0 { [n1, n2] } else { [n2, n1] };
            let mut env = w.docs[d].env.clone();
            let mut m = w.docs[d].m.clone();
            for n in order {
                env = lib!("add_assertion", env.add_assertion("k", n));
                m = m.add_assertion_m(&M::assertion(M::leaf(CV::text("k")), M::leaf(CV::U(n))));
            }
            ctx.probe("assertions-with-colliding-digest-prefix");
            let ind = w.docs[d].independent;
            check_immutable(w, ctx, &[d], "add_assertion (prefix twins)");
            push_doc(w, ctx, env, if ind { Some(m) } else { None }, "AddTwins")
        }
        "AddMany" => {
            // many assertions on one subject (8..20), added one by one in an order drawn from the step's argument
            let d = doc!(a0);
            let n = 8 + (a1 % 13) as usize;
            let mut order: Vec<usize> = (0..n).collect();
            SimRng::new(a3).shuffle(&mut order);
            let mut env = w.docs[d].env.clone();
            let mut m = w.docs[d].m.clone();
            for i in order {
                let (pcv, ocv) = (CV::U(1000 + i as u64), if i % 3 == 0 { CV::U(gen::BOUNDARY_U[i % gen::BOUNDARY_U.len()]) } else { CV::text(&format!("value {}", i)) });
                let (pe, oe) = (make_leaf_env(&pcv, 1), make_leaf_env(&ocv, 1));
                env = lib!("add_assertion", env.add_assertion(pe, oe));
                m = m.add_assertion_m(&M::assertion(M::leaf(pcv), M::leaf(ocv)));
            }
            ctx.probe("eight-or-more-assertions");
            let ind = w.docs[d].independent;
            check_immutable(w, ctx, &[d], "add_assertion (many)");
            push_doc(w, ctx, env, if ind { Some(m) } else { None }, "AddMany")
        }
        "Deepen" => {
            // nesting five to ten levels deep: alternately wrapped and placed as the object of a fresh subject
            let d = doc!(a0);
            // (one time in five deeper than any fixed-size indentation or recursion budget one might think of: 17..24)
            let k = if a1 % 5 == 0 { 17 + (a1 / 5 % 8) as usize } else { 5 + (a1 % 6) as usize };
            let mut env = w.docs[d].env.clone();
            let mut m = w.docs[d].m.clone();
            for lvl in 0..k {
                if (a3 >> lvl) & 1 == 0 {
                    env = lib!("wrap_envelope", env.wrap_envelope());
                    m = M::wrapped(m);
                } else {
                    let (scv, pcv) = (CV::text(&format!("level {}", lvl)), CV::text("holds"));
                    env = lib!("add_assertion", make_leaf_env(&scv, 1).add_assertion(make_leaf_env(&pcv, 1), env.clone()));
                    m = M::node(M::leaf(scv), vec![M::assertion(M::leaf(pcv), m)]);
                }
            }
            ctx.probe("nested-five-or-more-levels");
            let ind = w.docs[d].independent;
            check_immutable(w, ctx, &[d], "deepen");
            push_doc(w, ctx, env, if ind { Some(m) } else { None }, "Deepen")
        }
        "AddBatch" => {
            // several assertions handed over in one call; the model adds them one by one
            let d = doc!(a0);
            let pairs: Vec<(usize, usize)> = vec![(doc!(a1), doc!(a2)), (doc!(a3 >> 8), doc!(a3 >> 20)), (doc!(a3 >> 32), doc!(a3 >> 44))];
            let n = 2 + (a3 >> 4) % 2;
            let pairs = &pairs[..n as usize];
            let de = w.docs[d].env.clone();
            let batch: Vec<Envelope> = pairs.iter().map(|(p, o)| Envelope::new_assertion(w.docs[*p].env.clone(), w.docs[*o].env.clone())).collect();
            let env: Result<Envelope, String> = lib!(
                "batch add",
                match a3 % 4 {
                    0 => Ok(de.add_assertions(&batch)),
                    1 => Ok(de.add_assertions_salted(&batch, false)),
                    2 => de.add_assertion_envelopes(&batch).map_err(|e| e.to_string()),
                    _ => batch.iter().try_fold(de.clone(), |e, a| e.add_optional_assertion_envelope(Some(a.clone())).map_err(|e| e.to_string())),
                }
            );
            let env = match env {
                Ok(e) => e,
                Err(e) => {
                    ctx.checked();
                    ctx.violate("C07.add-refused", format!("a batch of assertions built by new_assertion was refused: {}", e));
                    return StepResult::Refused;
                }
            };
            let mut m = w.docs[d].m.clone();
            let mut ind = w.docs[d].independent;
            for (p, o) in pairs {
                m = m.add_assertion_m(&M::assertion(w.docs[*p].m.clone(), w.docs[*o].m.clone()));
                ind = ind && w.docs[*p].independent && w.docs[*o].independent;
            }
            ctx.probe("batch-add");
            check_immutable(w, ctx, &[d], "batch add");
            push_doc(w, ctx, env, if ind { Some(m) } else { None }, "AddBatch")
        }
        "AddEnvelope" => {
            let (d, x) = (doc!(a0), doc!(a1));
            let (de, xe) = (w.docs[d].env.clone(), w.docs[x].env.clone());
            let r = lib!(
                "add_assertion_envelope (entry point variant)",
                match a3 % 12 {
                    6 => de.add_assertion_envelopes(&[xe]),
                    7 => de.add_optional_assertion_envelope(Some(xe)),
                    8 => de.add_assertion_envelope_if(true, xe),
                    9 => de.add_assertion_envelope_salted(xe, false),
                    10 => de.add_optional_assertion_envelope_salted(Some(xe), false),
                    11 => de.add_optional_assertion_envelope(None).and_then(|same| same.add_assertion_envelope(xe)),
                    _ => de.add_assertion_envelope(xe),
                }
            );
            let slot_ok = w.docs[x].m.assertion_slot_ok();
            let ind = w.docs[d].independent && w.docs[x].independent;
            check_immutable(w, ctx, &[d, x], "add_assertion_envelope");
            match r {
                Ok(env) => {
                    if !slot_ok && ind {
                        ctx.checked();
                        ctx.violate("C04.assertion-slot", "add_assertion_envelope accepted an element that is neither an assertion nor obscured".to_string());
                        return push_doc(w, ctx, env, None, "AddEnvelope");
                    }
                    let m = w.docs[d].m.add_assertion_m(&w.docs[x].m.clone());
                    push_doc(w, ctx, env, if ind { Some(m) } else { None }, "AddEnvelope")
                }
                Err(_) => {
                    if slot_ok && ind {
                        ctx.checked();
                        // C07: adding the same information must work; an assertion-or-obscured element is addable by contract
                        ctx.violate("C07.add-refused", "add_assertion_envelope refused an assertion/obscured element".to_string());
                    }
                    ctx.t("AddEnvelope refused");
                    StepResult::Refused
                }
            }
        }
        "Remove" => {
            let d = doc!(a0);
            let asserts = w.docs[d].m.assertions();
            if w.docs[d].env.assertions().len() != asserts.len() {
                return StepResult::Skipped;
            }
            let (target_env, target_d): (Envelope, D) = if !asserts.is_empty() && a2 % 4 != 3 {
                let i = (a1 % asserts.len() as u64) as usize;
                (w.docs[d].env.assertions()[i].clone(), asserts[i].digest())
            } else {
                let x = doc!(a1);
                (w.docs[x].env.clone(), w.docs[x].m.digest())
            };
            let env = lib!("remove_assertion", w.docs[d].env.remove_assertion(target_env));
            let m = w.docs[d].m.remove_assertion_m(&target_d);
            if asserts.len() == 1 && asserts[0].digest() == target_d {
                ctx.probe("remove-last-assertion");
                if ctx.armed("C04") || ctx.armed("C07") {
                    ctx.checked();
                    if env.to_cbor_data() != w.docs[d].env.subject().to_cbor_data() {
                        let id = if ctx.armed("C04") { "C04.remove-last" } else { "C07.remove-last" };
                        ctx.violate(id, "removing the last assertion did not yield the bare subject".to_string());
                    }
                }
            }
            let ind = w.docs[d].independent;
            check_immutable(w, ctx, &[d], "remove_assertion");
            push_doc(w, ctx, env, if ind { Some(m) } else { None }, "Remove")
        }
        "AddRemove" => {
            // inverse law (C07): add an assertion that is absent, then remove it ⇒ previous bytes
            let (d, p, o) = (doc!(a0), doc!(a1), doc!(a2));
            let am = M::assertion(w.docs[p].m.clone(), w.docs[o].m.clone());
            if w.docs[d].m.assertions().iter().any(|x| x.digest() == am.digest()) {
                return StepResult::Skipped;
            }
            let added = lib!("add_assertion", w.docs[d].env.add_assertion(w.docs[p].env.clone(), w.docs[o].env.clone()));
            let target = lib!("new_assertion", Envelope::new_assertion(w.docs[p].env.clone(), w.docs[o].env.clone()));
            let back = lib!("remove_assertion", added.remove_assertion(target));
            if ctx.armed("C07") {
                ctx.checked();
                if back.to_cbor_data() != w.docs[d].bytes {
                    ctx.violate("C07.inverse", "add then remove of an absent assertion did not restore the previous envelope".to_string());
                }
            }
            check_immutable(w, ctx, &[d, p, o], "add/remove");
            let m = w.docs[d].m.clone();
            let ind = w.docs[d].independent;
            push_doc(w, ctx, back, if ind { Some(m) } else { None }, "AddRemove")
        }
        "Replace" => {
            let (d, x) = (doc!(a0), doc!(a2));
            let asserts = w.docs[d].m.assertions();
            if asserts.is_empty() || w.docs[d].env.assertions().len() != asserts.len() {
                return StepResult::Skipped;
            }
            let i = (a1 % asserts.len() as u64) as usize;
            let old_env = w.docs[d].env.assertions()[i].clone();
            let r = lib!("replace_assertion", w.docs[d].env.replace_assertion(old_env, w.docs[x].env.clone()));
            let slot_ok = w.docs[x].m.assertion_slot_ok();
            let ind = w.docs[d].independent && w.docs[x].independent;
            check_immutable(w, ctx, &[d, x], "replace_assertion");
            match r {
                Ok(env) => {
                    if !slot_ok && ind {
                        ctx.checked();
                        ctx.violate("C04.assertion-slot", "replace_assertion accepted an element that is neither an assertion nor obscured".to_string());
                        return push_doc(w, ctx, env, None, "Replace");
                    }
                    let m = w.docs[d].m.remove_assertion_m(&asserts[i].digest()).add_assertion_m(&w.docs[x].m.clone());
                    push_doc(w, ctx, env, if ind { Some(m) } else { None }, "Replace")
                }
                Err(_) => {
                    ctx.t("Replace refused");
                    StepResult::Refused
                }
            }
        }
        "Decorate" => {
            // give one existing assertion an assertion of its own (an assertion carrying assertions)
            let (d, p, o) = (doc!(a0), doc!(a2), doc!(a3));
            let asserts = w.docs[d].m.assertions();
            if asserts.is_empty() || w.docs[d].env.assertions().len() != asserts.len() {
                return StepResult::Skipped;
            }
            let i = (a1 % asserts.len() as u64) as usize;
            let old_env = w.docs[d].env.assertions()[i].clone();
            let decorated_env = lib!("add_assertion", old_env.add_assertion(w.docs[p].env.clone(), w.docs[o].env.clone()));
            let r = lib!("replace_assertion", w.docs[d].env.replace_assertion(old_env, decorated_env));
            let am = M::assertion(w.docs[p].m.clone(), w.docs[o].m.clone());
            let decorated_m = asserts[i].add_assertion_m(&am);
            let ind = w.docs[d].independent && w.docs[p].independent && w.docs[o].independent;
            check_immutable(w, ctx, &[d, p, o], "decorate");
            match r {
                Ok(env) => {
                    ctx.probe("assertion-decorated");
                    let m = w.docs[d].m.remove_assertion_m(&asserts[i].digest()).add_assertion_m(&decorated_m);
                    push_doc(w, ctx, env, if ind { Some(m) } else { None }, "Decorate")
                }
                Err(_) => StepResult::Refused,
            }
        }
        "ReplaceSubject" => {
            let (d, s) = (doc!(a0), doc!(a1));
            let env = lib!("replace_subject", w.docs[d].env.replace_subject(w.docs[s].env.clone()));
            let m = w.docs[d].m.replace_subject_m(&w.docs[s].m.clone());
            if w.docs[s].m.is_node() {
                ctx.probe("replace-subject-with-node");
            }
            let ind = w.docs[d].independent && w.docs[s].independent;
            check_immutable(w, ctx, &[d, s], "replace_subject");
            push_doc(w, ctx, env, if ind { Some(m) } else { None }, "ReplaceSubject")
        }
        "Wrap" => {
            let d = doc!(a0);
            let env = lib!("wrap_envelope", w.docs[d].env.wrap_envelope());
            let m = M::wrapped(w.docs[d].m.clone());
            let ind = w.docs[d].independent;
            if ctx.armed("C07") {
                // unwrap(wrap(e)) returns e
                ctx.checked();
                match lib!("unwrap_envelope", env.unwrap_envelope()) {
                    Ok(back) => {
                        if back.to_cbor_data() != w.docs[d].bytes {
                            ctx.violate("C07.unwrap-wrap", "unwrapping a wrapped envelope did not return it".to_string());
                        }
                    }
                    Err(_) => ctx.violate("C07.unwrap-wrap", "unwrapping a freshly wrapped envelope failed".to_string()),
                }
            }
            check_immutable(w, ctx, &[d], "wrap_envelope");
            push_doc(w, ctx, env, if ind { Some(m) } else { None }, "Wrap")
        }
        "Unwrap" => {
            let d = doc!(a0);
            let r = lib!("unwrap_envelope", w.docs[d].env.unwrap_envelope());
            let sm = w.docs[d].m.subject();
            let ind = w.docs[d].independent;
            check_immutable(w, ctx, &[d], "unwrap_envelope");
            match (r, sm.obsc(), sm.kind()) {
                (Ok(env), Obsc::Clear, MKind::Wrapped(inner)) => push_doc(w, ctx, env, if ind { Some(inner.clone()) } else { None }, "Unwrap"),
                (Ok(env), _, _) => push_doc(w, ctx, env, None, "Unwrap(non-wrapped)"),
                (Err(_), Obsc::Clear, MKind::Wrapped(_)) => {
                    if ind {
                        ctx.checked();
                        ctx.violate("C07.unwrap-wrap", "unwrap_envelope failed on a wrapped subject".to_string());
                    }
                    StepResult::Refused
                }
                (Err(_), _, _) => StepResult::Refused,
            }
        }
        "ElideSet" => {
            // a0 doc, a1 mode (0 removing / 1 revealing), a2 action, a3 target mask, a4 extra(absent digest bit | key<<1)
            let d = doc!(a0);
            let revealing = a1 % 2 == 1;
            let action = action_of(a2, a4 >> 1);
            let mut targets = select_targets(&w.docs[d].m, a3, a4);
            if a1 & 2 != 0 && !revealing {
                // aimed form: exactly the inner assertion of every assertion element that carries assertions of its
                // own (the decorations stay in clear); falls back to the mask when the document has none
                let inner: BTreeSet<D> = w.docs[d]
                    .m
                    .positions()
                    .iter()
                    .filter(|x| x.is_node() && matches!(x.subject().kind(), crate::model::MKind::Assertion(..)) && x.subject().obsc().is_clear())
                    .map(|x| x.subject().digest())
                    .collect();
                if !inner.is_empty() {
                    ctx.probe("decorated-assertion-inner-obscured");
                    targets = inner;
                }
            }
            let lib_targets = to_lib_set(&targets);
            let act = obscure_action(action);
            let what = format!("elide_{}_set_with_action({:?}, {} targets)", if revealing { "revealing" } else { "removing" }, action, targets.len());
            let _ = (&lib_targets, &act);
            let entry = a4 >> 8; // which of the twelve public entry points carries the request
            let env = lib!(what, elide_via(&w.docs[d].env, &targets, revealing, action, entry));
            let m = w.docs[d].m.obscure_set(&targets, revealing, action);
            let ind = w.docs[d].independent;
            if w.docs[d].m.has_obscured() {
                ctx.probe("obscure-already-obscured-doc");
            }
            if targets.contains(&w.docs[d].m.digest()) {
                ctx.probe("target-is-root");
            }
            if targets.is_empty() && revealing {
                ctx.probe("empty-target-revealing");
            }
            if ctx.armed("C02") {
                if digest_of(&env) != digest_of(&w.docs[d].env) {
                    ctx.checked();
                    ctx.violate("C02.root-digest", format!("{} changed the root digest", what));
                }
                let before = w.docs[d].env.clone();
                check_positions_preserved(ctx, &before, &env, &what);
            }
            if ctx.armed("C03") && ind {
                ctx.checked();
                if let Err(e) = compare_env(&env, &m, "") {
                    ctx.violate("C03.pattern", format!("{}: visibility pattern differs from the rule: {}", what, e));
                }
            }
            if ctx.armed("C03") && !matches!(action, Obsc::Elided) {
                // an element that carried its content in encrypted or compressed form and is addressed by a Compress /
                // Encrypt pass it cannot take part in stays as it is: it is hidden already, and turning it into a bare
                // digest would destroy content the key holder could still have opened
                let before = w.docs[d].env.clone();
                let holds = |e: &Envelope| e.is_encrypted() || e.is_compressed();
                let mut carried: BTreeSet<D> = BTreeSet::new();
                let mut found: Vec<Envelope> = vec![];
                {
                    let acc = std::cell::RefCell::new(Vec::new());
                    let visitor = |e: Envelope, _l: usize, _t: EdgeType, _p: Option<&()>| -> Option<&()> {
                        acc.borrow_mut().push(e);
                        None
                    };
                    before.walk(false, &visitor);
                    let all_before = acc.into_inner();
                    for e in &all_before {
                        if holds(e) {
                            carried.insert(digest_of(e));
                        }
                    }
                    // (a digest that also stood somewhere as a bare placeholder before proves nothing afterwards)
                    for e in &all_before {
                        if e.is_elided() {
                            carried.remove(&digest_of(e));
                        }
                    }
                    let acc2 = std::cell::RefCell::new(Vec::new());
                    let visitor2 = |e: Envelope, _l: usize, _t: EdgeType, _p: Option<&()>| -> Option<&()> {
                        acc2.borrow_mut().push(e);
                        None
                    };
                    env.walk(false, &visitor2);
                    found.extend(acc2.into_inner());
                }
                for dg in carried {
                    let after: Vec<&Envelope> = found.iter().filter(|e| digest_of(e) == dg).collect();
                    if !after.is_empty() && after.iter().all(|e| e.is_elided()) {
                        ctx.checked();
                        ctx.violate("C03.content-lost", format!("{}: an element that was held in encrypted / compressed form came out as a bare elided digest", what));
                        break;
                    }
                }
            }
            // compressing / encrypting IN PLACE through the obscuring API is compression / encryption too: every
            // addressed element must come out compressed (encrypted), wherever it sits - also inside wrapped content
            if ind && ((ctx.armed("C13") && action == Obsc::Compressed) || (ctx.armed("C08") && matches!(action, Obsc::Encrypted(_)))) {
                ctx.checked();
                if let Err(e) = compare_env(&env, &m, "") {
                    let id = if ctx.armed("C13") { "C13.in-place" } else { "C08.in-place" };
                    ctx.violate(id, format!("{}: an addressed element did not come out as the action demands: {}", what, e));
                }
            }
            if ctx.armed("C04") && ind && !revealing {
                // an element the library has just encrypted / compressed in place carries a digest: opened again (the
                // simulator holds the key), its content must be the element that stood there
                if matches!(action, Obsc::Encrypted(_) | Obsc::Compressed) {
                    let was_clear: BTreeSet<D> = w.docs[d].m.positions().iter().filter(|p| p.obsc().is_clear() && targets.contains(&p.digest())).map(|p| p.digest()).collect();
                    let mut seen: BTreeSet<D> = BTreeSet::new();
                    let found: std::cell::RefCell<Vec<Envelope>> = std::cell::RefCell::new(vec![]);
                    let visitor = |e: Envelope, _l: usize, _t: EdgeType, _p: Option<&()>| -> Option<&()> {
                        found.borrow_mut().push(e);
                        None
                    };
                    env.walk(false, &visitor);
                    for el in found.into_inner() {
                        let dg = digest_of(&el);
                        if !was_clear.contains(&dg) || !seen.insert(dg) {
                            continue;
                        }
                        let opened = match action {
                            Obsc::Encrypted(kid) if el.is_encrypted() => {
                                Some(guarded(|| el.decrypt_subject(&sym_key(kid)).map_err(|e| e.to_string())))
                            }
                            Obsc::Compressed if el.is_compressed() => Some(guarded(|| el.uncompress().map_err(|e| e.to_string()))),
                            _ => None,
                        };
                        if let Some(r) = opened {
                            ctx.checked();
                            ctx.probe("obscured-in-place-element-reopened");
                            match r {
                                Ok(Ok(x)) if digest_of(&x) == dg => {}
                                Ok(Ok(_)) => ctx.violate("C04.obscured-content", format!("{}: the element put in place of {} opens to content with another digest", what, dhex(&dg))),
                                Ok(Err(e)) => ctx.violate("C04.obscured-content", format!("{}: the element put in place of {} declares that digest but cannot be opened again: {}", what, dhex(&dg), e)),
                                Err(p) => ctx.violate_sig("C16.no-panic", format!("re-opening an element obscured in place panicked: {}", p), p),
                            }
                        }
                    }
                }
            }
            check_immutable(w, ctx, &[d], "elide");
            push_doc(w, ctx, env, if ind { Some(m) } else { None }, "ElideSet")
        }
        "ElideWhole" => {
            let d = doc!(a0);
            let env = lib!("elide", w.docs[d].env.elide());
            let m = w.docs[d].m.with_obsc(Obsc::Elided);
            let ind = w.docs[d].independent;
            if ctx.armed("C02") {
                ctx.checked();
                if digest_of(&env) != digest_of(&w.docs[d].env) {
                    ctx.violate("C02.root-digest", "elide() changed the digest".to_string());
                }
            }
            check_immutable(w, ctx, &[d], "elide");
            push_doc(w, ctx, env, if ind { Some(m) } else { None }, "ElideWhole")
        }
        "Compress" | "CompressSubject" => {
            let d = doc!(a0);
            let whole = st.op == "Compress";
            let r = lib!(st.op, if whole { w.docs[d].env.compress() } else { w.docs[d].env.compress_subject() });
            let dm = w.docs[d].m.clone();
            let ind = w.docs[d].independent;
            check_immutable(w, ctx, &[d], "compress");
            let target = if whole { dm.clone() } else { dm.subject() };
            match r {
                Ok(env) => {
                    if ctx.armed("C02") || ctx.armed("C13") {
                        ctx.checked();
                        if digest_of(&env) != dm.digest() {
                            let id = if ctx.armed("C02") { "C02.root-digest" } else { "C13.digest" };
                            ctx.violate(id, format!("{} changed the digest", st.op));
                        }
                    }
                    if ctx.armed("C02") {
                        let before = w.docs[d].env.clone();
                        check_positions_preserved(ctx, &before, &env, &st.op);
                    }
                    let m = match target.obsc() {
                        Obsc::Clear => {
                            let t2 = target.with_obsc(Obsc::Compressed);
                            Some(if whole { t2 } else { dm.with_subject(&t2) })
                        }
                        Obsc::Compressed => Some(dm.clone()),
                        _ => None,
                    };
                    push_doc(w, ctx, env, if ind { m } else { None }, &st.op)
                }
                Err(_) => {
                    if ind && matches!(target.obsc(), Obsc::Clear | Obsc::Compressed) {
                        ctx.checked();
                        ctx.violate("C13.compress-refused", format!("{} refused a compressible envelope", st.op));
                    }
                    StepResult::Refused
                }
            }
        }
        "Uncompress" | "UncompressSubject" => {
            let d = doc!(a0);
            let whole = st.op == "Uncompress";
            let r = lib!(st.op, if whole { w.docs[d].env.uncompress() } else { w.docs[d].env.uncompress_subject() });
            let dm = w.docs[d].m.clone();
            let ind = w.docs[d].independent;
            check_immutable(w, ctx, &[d], "uncompress");
            let target = if whole { dm.clone() } else { dm.subject() };
            match r {
                Ok(env) => {
                    if (ctx.armed("C13") || ctx.armed("C02")) && digest_of(&env) != dm.digest() {
                        ctx.checked();
                        ctx.violate("C13.digest", format!("{} changed the digest", st.op));
                    }
                    let m = match (target.obsc(), target.reveal()) {
                        (Obsc::Compressed, Some(c)) => Some(if whole { c } else { dm.with_subject(&c) }),
                        (Obsc::Compressed, None) => None,
                        (_, _) if !whole => Some(dm.clone()), // uncompress_subject of a non-compressed subject is the identity
                        _ => None,
                    };
                    push_doc(w, ctx, env, if ind { m } else { None }, &st.op)
                }
                Err(_) => {
                    if ind && target.obsc() == Obsc::Compressed && target.reveal().is_some() {
                        ctx.checked();
                        ctx.violate("C13.roundtrip", format!("{} failed on an element compressed by the library", st.op));
                    }
                    StepResult::Refused
                }
            }
        }
        "EncryptSubject" | "Encrypt" => {
            let d = doc!(a0);
            let k = (a1 % 4) as u32;
            let key = sym_key(k);
            let whole = st.op == "Encrypt";
            let dm = w.docs[d].m.clone();
            let ind = w.docs[d].independent;
            if whole {
                let env = lib!("encrypt", w.docs[d].env.encrypt(&key));
                let m = M::wrapped(dm.clone()).with_obsc(Obsc::Encrypted(k));
                check_immutable(w, ctx, &[d], "encrypt");
                return push_doc(w, ctx, env, if ind { Some(m) } else { None }, "Encrypt");
            }
            let r = lib!("encrypt_subject", w.docs[d].env.encrypt_subject(&key));
            check_immutable(w, ctx, &[d], "encrypt_subject");
            let subj = dm.subject();
            match r {
                Ok(env) => {
                    if ctx.armed("C02") || ctx.armed("C08") {
                        ctx.checked();
                        if digest_of(&env) != dm.digest() {
                            let id = if ctx.armed("C02") { "C02.root-digest" } else { "C08.digest" };
                            ctx.violate(id, "encrypt_subject changed the digest".to_string());
                        }
                        if matches!(subj.obsc(), Obsc::Encrypted(_)) && ind {
                            ctx.violate("C08.double-encrypt", "an already encrypted subject was encrypted again".to_string());
                        }
                    }
                    if ctx.armed("C02") {
                        let before = w.docs[d].env.clone();
                        check_positions_preserved(ctx, &before, &env, "encrypt_subject");
                    }
                    if (ctx.armed("C04") || ctx.armed("C08")) && matches!(subj.obsc(), Obsc::Clear | Obsc::Compressed) {
                        // what is sealed inside the encrypted element is the canonical encoding of the element that stood
                        // there (the simulator holds the key and opens the ciphertext itself, without the envelope layer)
                        if let bc_envelope::base::envelope::EnvelopeCase::Encrypted(msg) = env.subject().case() {
                            ctx.checked();
                            let want = w.docs[d].env.subject().tagged_cbor().to_cbor_data();
                            match guarded(|| key.decrypt(msg).map_err(|e| e.to_string())) {
                                Ok(Ok(plain)) => {
                                    if plain != want {
                                        let id = if ctx.armed("C04") { "C04.sealed-bytes" } else { "C08.sealed-bytes" };
                                        ctx.violate(id, format!("the plaintext sealed by encrypt_subject is {} but the canonical encoding of the subject is {}", hex(&plain[..plain.len().min(40)]), hex(&want[..want.len().min(40)])));
                                    }
                                    ctx.probe("sealed-plaintext-inspected");
                                }
                                Ok(Err(e)) => {
                                    let id = if ctx.armed("C04") { "C04.sealed-bytes" } else { "C08.sealed-bytes" };
                                    ctx.violate(id, format!("the ciphertext made by encrypt_subject does not open with the key it was made with: {}", e));
                                }
                                Err(_) => {}
                            }
                        }
                    }
                    let m = match subj.obsc() {
                        Obsc::Clear | Obsc::Compressed => {
                            let s2 = subj.hide_under(Obsc::Encrypted(k));
                            Some(dm.with_subject(&s2))
                        }
                        _ => None,
                    };
                    push_doc(w, ctx, env, if ind { m } else { None }, "EncryptSubject")
                }
                Err(_) => {
                    if ind && matches!(subj.obsc(), Obsc::Clear) {
                        ctx.checked();
                        ctx.violate("C08.encrypt-refused", "encrypt_subject refused a clear subject".to_string());
                    }
                    StepResult::Refused
                }
            }
        }
        "DecryptSubject" | "Decrypt" => {
            let d = doc!(a0);
            let k = (a1 % 4) as u32;
            let key = sym_key(k);
            let whole = st.op == "Decrypt";
            let dm = w.docs[d].m.clone();
            let ind = w.docs[d].independent;
            let r = lib!(st.op, if whole { w.docs[d].env.decrypt(&key) } else { w.docs[d].env.decrypt_subject(&key) });
            check_immutable(w, ctx, &[d], "decrypt");
            let subj = dm.subject();
            match (r, subj.obsc()) {
                (Ok(env), Obsc::Encrypted(k2)) if k2 != u32::MAX => {
                    if k2 != k && ind {
                        ctx.checked();
                        ctx.violate("C08.wrong-key", "decryption with another key succeeded".to_string());
                        return push_doc(w, ctx, env, None, &st.op);
                    }
                    let m = subj.reveal().map(|c| dm.with_subject(&c));
                    let m = match (whole, m) {
                        (false, m) => m,
                        (true, Some(m)) => match (m.subject().obsc(), m.subject().kind()) {
                            (Obsc::Clear, MKind::Wrapped(inner)) => Some(inner.clone()),
                            _ => None,
                        },
                        (true, None) => None,
                    };
                    push_doc(w, ctx, env, if ind { m } else { None }, &st.op)
                }
                (Ok(env), _) => push_doc(w, ctx, env, None, &st.op),
                (Err(_), Obsc::Encrypted(k2)) => {
                    if k2 == k && ind && subj.reveal().is_some() {
                        // `decrypt` (whole form) legitimately fails when the plaintext subject is not wrapped
                        let wrapped_inside = matches!(subj.reveal().map(|c| (c.obsc(), matches!(c.kind(), MKind::Wrapped(_)))), Some((Obsc::Clear, true)));
                        if !whole || wrapped_inside {
                            ctx.checked();
                            ctx.violate("C08.roundtrip", format!("{} with the encrypting key failed", st.op));
                        }
                    }
                    StepResult::Refused
                }
                (Err(_), _) => StepResult::Refused,
            }
        }
        "Unelide" => {
            let (d, x) = (doc!(a0), doc!(a1));
            let r = lib!("unelide", w.docs[d].env.unelide(w.docs[x].env.clone()));
            let same = w.docs[d].m.digest() == w.docs[x].m.digest();
            check_immutable(w, ctx, &[d, x], "unelide");
            if ctx.armed("C03") {
                ctx.checked();
                match (&r, same) {
                    (Ok(e), true) => {
                        if e.to_cbor_data() != w.docs[x].bytes {
                            ctx.violate("C03.unelide", "unelide returned something other than the offered envelope".to_string());
                        }
                    }
                    (Ok(_), false) => ctx.violate("C03.unelide", "unelide accepted an envelope with a different digest".to_string()),
                    (Err(_), true) => ctx.violate("C03.unelide", "unelide refused an envelope with the placeholder's digest".to_string()),
                    (Err(_), false) => {}
                }
            }
            match r {
                Ok(env) => {
                    let m = w.docs[x].m.clone();
                    let ind = w.docs[x].independent;
                    push_doc(w, ctx, env, if ind && same { Some(m) } else { None }, "Unelide")
                }
                Err(_) => StepResult::Refused,
            }
        }
        "Roundtrip" => {
            // a0 doc, a1 form: 0 cbor data, 1 UR string, 2 tagged CBOR value, 3..7 the other conversion paths
            let d = doc!(a0);
            let form = a1 % 8;
            let bytes = w.docs[d].bytes.clone();
            let r: Result<Envelope, String> = match form {
                // the other transport forms: UR value, CBOR value through the conversion traits, tagged and untagged data
                3 => {
                    let ur = lib!("ur", w.docs[d].env.ur());
                    lib!("from_ur", Envelope::from_ur(&ur).map_err(|e| e.to_string()))
                }
                4 => {
                    let c: CBOR = lib!("CBOR::from(envelope)", CBOR::from(w.docs[d].env.clone()));
                    lib!("Envelope::try_from(CBOR)", Envelope::try_from(c).map_err(|e| e.to_string()))
                }
                5 => {
                    let data = lib!("tagged_cbor_data", w.docs[d].env.tagged_cbor().to_cbor_data());
                    lib!("from_tagged_cbor_data", Envelope::from_tagged_cbor_data(data).map_err(|e| e.to_string()))
                }
                6 => {
                    let c = lib!("untagged_cbor", w.docs[d].env.untagged_cbor());
                    lib!("from_untagged_cbor", Envelope::from_untagged_cbor(c).map_err(|e| e.to_string()))
                }
                7 => {
                    let c = lib!("to_cbor", w.docs[d].env.to_cbor());
                    lib!("from_tagged_cbor", Envelope::from_tagged_cbor(c).map_err(|e| e.to_string()))
                }
                0 => lib!("try_from_cbor_data", Envelope::try_from_cbor_data(bytes.clone()).map_err(|e| e.to_string())),
                1 => {
                    let ur = lib!("ur_string", w.docs[d].env.ur_string());
                    ctx.t(&format!("ur {}", ur.len()));
                    lib!("from_ur_string", Envelope::from_ur_string(&ur).map_err(|e| e.to_string()))
                }
                _ => {
                    let c = lib!("tagged_cbor", w.docs[d].env.tagged_cbor());
                    lib!("try_from_cbor", Envelope::try_from_cbor(c).map_err(|e| e.to_string()))
                }
            };
            check_immutable(w, ctx, &[d], "encode");
            let ind = w.docs[d].independent;
            let dm = w.docs[d].m.clone();
            match r {
                Ok(env) => {
                    if ctx.armed("C05") {
                        ctx.checked();
                        let again = env.to_cbor_data();
                        if again != bytes {
                            ctx.violate("C05.bytes", format!("re-encoding after decode differs from the original encoding (form {})", form));
                        }
                        if !env.is_identical_to(&w.docs[d].env) {
                            ctx.violate("C05.identical", format!("decoded envelope is not identical to the encoded one (form {})", form));
                        }
                        // model identity, independent of is_identical_to: same case + digest at every position
                        if positions_by_case(&env) != positions_by_case(&w.docs[d].env) {
                            ctx.violate("C05.positions", format!("decoded envelope differs in case or digest at some position (form {})", form));
                        }
                        if ind {
                            if let Err(e) = compare_env(&env, &dm, "") {
                                ctx.violate("C05.model", format!("decoded envelope differs from the model of what was encoded: {}", e));
                            }
                        }
                        probe_roundtrip(ctx, &dm);
                    }
                    push_doc(w, ctx, env, if ind { Some(dm) } else { None }, "Roundtrip")
                }
                Err(e) => {
                    if ctx.armed("C05") {
                        ctx.checked();
                        ctx.violate("C05.decodes", format!("the library's own encoding was rejected by its decoder (form {}): {}", form, e));
                    }
                    StepResult::Refused
                }
            }
        }
        _ => StepResult::Skipped,
    }
}

fn probe_roundtrip(ctx: &mut Ctx, m: &M) {
    for p in m.positions() {
        match p.obsc() {
            Obsc::Elided => ctx.probe("rt-elided"),
            Obsc::Encrypted(_) => ctx.probe("rt-encrypted"),
            Obsc::Compressed => ctx.probe("rt-compressed"),
            Obsc::Some => ctx.probe("rt-obscured-other"),
            Obsc::Clear => match p.kind() {
                MKind::Leaf(cv) => match cv {
                    CV::U(_) | CV::N(_) => ctx.probe("rt-leaf-int"),
                    CV::T(_) => ctx.probe("rt-leaf-text"),
                    CV::B(_) => ctx.probe("rt-leaf-bytes"),
                    CV::F(_) => ctx.probe("rt-leaf-float"),
                    CV::S(_) => ctx.probe("rt-leaf-simple"),
                    CV::A(_) => ctx.probe("rt-leaf-array"),
                    CV::M(_) => ctx.probe("rt-leaf-map"),
                    CV::Tag(..) => ctx.probe("rt-leaf-tagged"),
                },
                MKind::Known(_) => ctx.probe("rt-known"),
                MKind::Wrapped(_) => ctx.probe("rt-wrapped"),
                MKind::Node { subject, .. } => {
                    if subject.is_node() {
                        ctx.probe("rt-node-subject-node")
                    }
                }
                _ => {}
            },
        }
    }
}

/// Run a whole scenario of this family.
pub fn run(scn: &Scenario, ctx: &mut Ctx) {
    let mut w = World::new(scn.cfg("leafdom", gen::DOM_ALL));
    for (i, st) in scn.steps.iter().enumerate() {
        ctx.step = i;
        ctx.sim_ticks += 1;
        match exec_step(&mut w, ctx, st) {
            StepResult::Produced | StepResult::Refused => ctx.executed += 1,
            StepResult::Skipped => {}
        }
        if ctx.failed() && ctx.stop_at_first {
            break;
        }
        // bound the size of documents
        if let Some(d) = w.docs.last() {
            if d.m.count() > MAX_ELEMENTS {
                w.docs.pop();
            }
        }
    }
}

// ------------------------------------------------------------------------------------------
// Generation (swarm): per run, draw which op families are enabled, sizes and the step list.

pub struct GenCfg {
    pub obscure: bool,
    pub crypto: bool,
    pub compress: bool,
    pub roundtrip: bool,
    pub mutate: bool,
}

pub fn generate(property: &str, r: &mut SimRng, seed: u64) -> Scenario {
    let mut scn = Scenario::new(property, "hist", seed);
    // swarm: leaf domain subset
    let dom = if r.chance(1, 3) { gen::DOM_ALL } else { (r.next() & gen::DOM_ALL) | 1 };
    scn.cfg.insert("leafdom".into(), dom);
    let nsteps = if r.chance(3, 4) { r.range(3, 10) } else { r.range(10, 30) };
    // enabled families
    let weights: Vec<(&str, u64)> = {
        let mut w: Vec<(&str, u64)> = vec![("NewLeaf", 6), ("NewKnown", 2), ("NewAssertion", 3), ("AddAssertion", 8), ("AddBatch", 1), ("AddText", 1), ("AddTyped", 1), ("Wrap", 2)];
        let on = |r: &mut SimRng, num: u64, den: u64| r.chance(num, den);
        let emphasis = match property {
            "C02" | "C03" => 4,
            _ => 1,
        };
        if on(r, 3, 4) {
            w.push(("AddEnvelope", 3));
        }
        if on(r, 3, 4) {
            w.push(("Remove", 3));
            w.push(("AddRemove", if property == "C07" { 4 } else { 1 }));
        }
        if on(r, 2, 3) {
            w.push(("Decorate", 2));
        }
        if on(r, 1, 4) {
            w.push(("AddMany", 1));
            w.push(("Deepen", if property == "C16" { 3 } else { 1 }));
        }
        if on(r, 1, 3) {
            w.push(("NodeInNode", 2));
        }
        if on(r, 1, 4) {
            w.push(("AddTwins", 1));
        }
        if on(r, 1, 4) {
            w.push(("TypedElement", 1));
        }
        if on(r, 2, 3) {
            w.push(("Replace", 2));
            w.push(("ReplaceSubject", 2));
        }
        if on(r, 2, 3) {
            w.push(("Unwrap", 2));
        }
        if on(r, 3, 4) || emphasis > 1 {
            w.push(("ElideSet", 4 * emphasis));
            w.push(("ElideWhole", 1));
            w.push(("Unelide", if property == "C03" { 4 } else { 1 }));
        }
        if on(r, 2, 3) || emphasis > 1 {
            w.push(("Compress", 2));
            w.push(("CompressSubject", 2));
            w.push(("Uncompress", 2));
            w.push(("UncompressSubject", 2));
        }
        if on(r, 2, 3) || emphasis > 1 {
            w.push(("EncryptSubject", 2));
            w.push(("Encrypt", 1));
            w.push(("DecryptSubject", 2));
            w.push(("Decrypt", 1));
        }
        if on(r, 3, 4) || property == "C05" {
            w.push(("Roundtrip", if property == "C05" { 8 } else { 2 }));
        }
        w
    };
    let total: u64 = weights.iter().map(|x| x.1).sum();
    // always start with two leaves so that early steps are meaningful
    scn.push("NewLeaf", &[r.next(), r.next()]);
    scn.push(if property == "C03" { "NewMarked" } else { "NewLeaf" }, &[r.next(), r.next()]);
    for _ in 0..nsteps {
        let mut x = r.below(total);
        let mut op = weights[0].0;
        for (name, wt) in &weights {
            if x < *wt {
                op = name;
                break;
            }
            x -= wt;
        }
        let op = if op == "NewLeaf" && property == "C03" && r.chance(1, 2) { "NewMarked" } else { op };
        // documents are addressed by distance from the most recent one
        let ds = |r: &mut SimRng| -> u64 { if r.chance(2, 3) { r.below(3) } else { r.below(24) } };
        let a: Vec<u64> = match op {
            "NewLeaf" | "NewMarked" => vec![if r.chance(1, 4) { r.below(8) } else { r.next() }, r.next()],
            "NewKnown" => vec![r.next()],
            "ElideSet" => {
                // target mask: sparse, dense, or single
                let mask = match r.below(4) {
                    0 => 1u64 << r.below(12),
                    1 => r.next() & r.next(),
                    2 => r.next(),
                    _ => (1u64 << r.below(12)) | (1u64 << r.below(12)),
                };
                let extra = (if r.chance(1, 6) { 1 } else { 0 }) | (r.below(4) << 1) | (r.below(1 << 20) << 8);
                // (no further draw: one mask in eight selects the aimed form, see the interpreter)
                let aimed = if mask % 8 == 5 { 2 } else { 0 };
                vec![ds(r), r.below(2) | aimed, r.below(3), mask, extra]
            }
            _ => vec![ds(r), ds(r), ds(r), r.next()],
        };
        scn.push(op, &a);
    }
    scn
}
