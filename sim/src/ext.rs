//! Extension families: salting under the simulator's RNG stream (C17), expression / request /
//! response / event exchange between client and server parties with a simulated clock (C18),
//! attachments and types contributed in any order with malformed-in-flight cases (C19).

use crate::bridge::*;
use crate::core::{Ctx, Scenario, Step};
use crate::hist::{self, StepResult, World};
use crate::model::*;
use crate::rng::SimRng;
use crate::wire::{decode_guarded, Decoded};
use bc_components::{Salt, ARID};
use bc_envelope::extension::expressions::{Event, EventBehavior, Expression, ExpressionBehavior, Function, Parameter, Request, RequestBehavior, Response, ResponseBehavior};
use bc_envelope::prelude::*;
use std::collections::BTreeSet;

fn ident(a: &Envelope, b: &Envelope) -> bool {
    a.to_cbor_data() == b.to_cbor_data()
}
fn transmit(ctx: &mut Ctx, e: &Envelope) -> Option<Envelope> {
    ctx.sim_ticks += 1;
    match decode_guarded(&e.to_cbor_data()) {
        Decoded::Ok(x) => Some(x),
        _ => None,
    }
}
fn ds(r: &mut SimRng) -> u64 {
    if r.chance(2, 3) {
        r.below(3)
    } else {
        r.below(12)
    }
}

// ======================================================================================
// C17 salt

struct ExtremeRng {
    head: Vec<u64>,
    i: usize,
    tail: SimRng,
}
impl rand::RngCore for ExtremeRng {
    fn next_u32(&mut self) -> u32 {
        self.next_u64() as u32
    }
    fn next_u64(&mut self) -> u64 {
        if self.i < self.head.len() {
            self.i += 1;
            self.head[self.i - 1]
        } else {
            self.tail.next()
        }
    }
    fn fill_bytes(&mut self, dest: &mut [u8]) {
        for chunk in dest.chunks_mut(8) {
            let w = self.next_u64().to_le_bytes();
            chunk.copy_from_slice(&w[..chunk.len()]);
        }
    }
    fn try_fill_bytes(&mut self, dest: &mut [u8]) -> Result<(), rand::Error> {
        self.fill_bytes(dest);
        Ok(())
    }
}
impl rand::CryptoRng for ExtremeRng {}
impl bc_rand::RandomNumberGenerator for ExtremeRng {}

fn salt_digest() -> D {
    digest_of(&Envelope::new(known_values::SALT))
}

/// the assertions of `after` that are not (by digest) assertions of `before`
fn new_assertions(before: &Envelope, after: &Envelope) -> Vec<Envelope> {
    let old: BTreeSet<D> = before.assertions().iter().map(digest_of).collect();
    after.assertions().into_iter().filter(|a| !old.contains(&digest_of(a))).collect()
}

/// checks common to every "add one salt assertion" operation; returns the salt length
fn check_salt_added(ctx: &mut Ctx, before: &Envelope, after: &Envelope, what: &str) -> Option<usize> {
    ctx.checked();
    if !ident(&after.subject(), &before.subject()) {
        ctx.violate("C17.content", format!("{} changed the subject", what));
        return None;
    }
    let old: Vec<D> = before.assertions().iter().map(digest_of).collect();
    let now: BTreeSet<D> = after.assertions().iter().map(digest_of).collect();
    if !old.iter().all(|d| now.contains(d)) {
        ctx.violate("C17.content", format!("{} dropped or changed an existing assertion", what));
        return None;
    }
    let added = new_assertions(before, after);
    if added.len() != 1 || after.assertions().len() != before.assertions().len() + 1 {
        ctx.violate("C17.placement", format!("{} added {} assertions instead of exactly one", what, added.len()));
        return None;
    }
    let a = &added[0];
    let (p, o) = match a.case() {
        bc_envelope::base::envelope::EnvelopeCase::Assertion(x) => (x.predicate(), x.object()),
        _ => {
            ctx.violate("C17.placement", format!("{}: the added element is not a plain assertion", what));
            return None;
        }
    };
    if digest_of(&p) != salt_digest() {
        ctx.violate("C17.placement", format!("{}: the added assertion's predicate is not 'salt'", what));
        return None;
    }
    match o.extract_subject::<Salt>() {
        Ok(s) => Some(s.len()),
        Err(_) => {
            ctx.violate("C17.placement", format!("{}: the 'salt' assertion's object is not a Salt", what));
            None
        }
    }
}

fn documented_range(n: usize) -> (usize, usize) {
    // documented rule: proportional to the envelope's serialized size, at least 8
    let min = std::cmp::max(8, (n as f64 * 0.05).ceil() as usize);
    let max = std::cmp::max(min + 8, (n as f64 * 0.25).ceil() as usize);
    (min, max)
}

pub fn run_salt(scn: &Scenario, ctx: &mut Ctx) {
    let mut w = World::new(scn.cfg("leafdom", crate::gen::DOM_ALL));
    for (i, st) in scn.steps.iter().enumerate() {
        ctx.step = i;
        ctx.sim_ticks += 1;
        let op = st.op.as_str();
        if !op.starts_with("Z.") {
            if !matches!(hist::exec_step(&mut w, ctx, st), StepResult::Skipped) {
                ctx.executed += 1;
            }
            continue;
        }
        let d = match w.idx(st.arg(0)) {
            Some(d) => d,
            None => continue,
        };
        ctx.executed += 1;
        let mut doc = w.docs[d].env.clone();
        // padding to steer the serialized size (sizes around 64, 160, 320 B and up to ~10 KB / 100 KB)
        let pad = st.arg(4);
        if pad > 0 {
            let text: String = std::iter::repeat('x').take(pad as usize).collect();
            doc = doc.add_assertion("pad", text);
        }
        let n = doc.to_cbor_data().len();
        let (lo, hi) = documented_range(n);
        if n < 160 {
            ctx.probe("size-below-160");
        } else if n < 320 {
            ctx.probe("size-160-to-320");
        } else if n < 5000 {
            ctx.probe("size-320-to-5000");
        } else {
            ctx.probe("size-over-5000");
        }
        match op {
            "Z.AddSalt" | "Z.Extreme" => {
                let r1 = if op == "Z.Extreme" {
                    ctx.fault("rng.extreme");
                    let heads: [&[u64]; 6] = [&[0], &[u64::MAX], &[1 << 63], &[0, 0, 0], &[u64::MAX, u64::MAX], &[1]];
                    let mut rng = ExtremeRng { head: heads[(st.arg(1) % 6) as usize].to_vec(), i: 0, tail: SimRng::new(st.arg(1) ^ 0x5a17) };
                    guarded(|| doc.add_salt_using(&mut rng))
                } else {
                    ctx.fault("rng.stream");
                    guarded(|| doc.add_salt())
                };
                let e1 = match r1 {
                    Ok(e) => e,
                    Err(p) => {
                        ctx.violate_sig("C16.no-panic", format!("add_salt panicked: {}", p), p);
                        continue;
                    }
                };
                if let Some(len) = check_salt_added(ctx, &doc, &e1, "add_salt") {
                    if len < lo || len > hi {
                        ctx.violate("C17.range", format!("add_salt on a {}-byte envelope added {} bytes of salt; documented range is {}..={}", n, len, lo, hi));
                    }
                    if len == lo || len == hi {
                        ctx.probe("salt-length-at-range-boundary");
                    }
                }
                // an independent second salting of the same envelope decorrelates
                let e2 = doc.add_salt();
                ctx.checked();
                if digest_of(&e1) == digest_of(&e2) || digest_of(&e1.elide()) == digest_of(&e2.elide()) {
                    ctx.violate("C17.decorrelate", "two independent saltings of equal envelopes have the same digest".to_string());
                }
                // two further parties, each on a thread of its own with its own entropy, salt the same envelope too
                if op == "Z.AddSalt" && st.arg(1) % 4 == 0 {
                    let (s1, s2) = (sha(&(st.arg(1) ^ 0x7431).to_le_bytes()), sha(&(st.arg(1) ^ 0x7432).to_le_bytes()));
                    let on_thread = |seed: [u8; 32]| {
                        let d = doc.clone();
                        std::thread::spawn(move || {
                            bc_rand::verif_set_thread_seed(Some(seed));
                            let r = std::panic::catch_unwind(std::panic::AssertUnwindSafe(|| digest_of(&d.add_salt())));
                            bc_rand::verif_set_thread_seed(None);
                            r.ok()
                        })
                    };
                    let (h1, h2) = (on_thread(s1), on_thread(s2));
                    if let (Ok(Some(d1)), Ok(Some(d2))) = (h1.join(), h2.join()) {
                        ctx.checked();
                        ctx.probe("salted-on-two-threads");
                        if d1 == d2 {
                            ctx.violate("C17.decorrelate", "two parties salting equal envelopes on two threads (each with its own entropy) get the same digest".to_string());
                        }
                    }
                }
                ctx.t(&format!("{} n={} range {}..={}", op, n, lo, hi));
            }
            "Z.WithLen" => {
                // (now and then a length at the edge of the 16-bit CBOR length head)
                let want = if st.arg(1) % 24 == 23 { [65535usize, 65536, 70000][(st.arg(4) % 3) as usize] } else { (st.arg(1) % 24) as usize };
                ctx.checked();
                let via_rng = st.arg(2) % 3;
                match guarded(|| match via_rng {
                    1 => doc.add_salt_with_len_using(want, &mut ExtremeRng { head: vec![], i: 0, tail: SimRng::new(st.arg(1) ^ 0x5a17) }),
                    2 if want >= 8 => bc_components::Salt::new_with_len(want).map(|s| doc.add_salt_instance(s)).map_err(|e| anyhow::anyhow!("{}", e)),
                    _ => doc.add_salt_with_len(want),
                }) {
                    Ok(Ok(e)) => {
                        if want < 8 {
                            ctx.violate("C17.refusal", format!("add_salt_with_len({}) was not refused", want));
                        } else if let Some(len) = check_salt_added(ctx, &doc, &e, "add_salt_with_len") {
                            if len != want {
                                ctx.violate("C17.range", format!("add_salt_with_len({}) added {} bytes", want, len));
                            }
                        }
                    }
                    Ok(Err(_)) => {
                        if want >= 8 {
                            ctx.violate("C17.refusal", format!("add_salt_with_len({}) was refused", want));
                        } else {
                            ctx.probe("short-salt-refused");
                        }
                    }
                    Err(p) => ctx.violate_sig("C17.range", format!("add_salt_with_len({}) panicked instead of adding the salt or refusing: {}", want, p), p),
                }
                ctx.t(&format!("Z.WithLen {}", want));
            }
            "Z.InRange" => {
                let lo_req = if st.arg(1) % 20 == 19 { 65530 + (st.arg(2) % 12) as usize } else { (st.arg(1) % 20) as usize };
                let span = if st.arg(2) % 5 == 0 { 0 } else { (st.arg(2) % 40) as usize }; // single-length ranges included
                ctx.checked();
                match guarded(|| if st.arg(3) % 2 == 1 { doc.add_salt_in_range_using(&(lo_req..=lo_req + span), &mut ExtremeRng { head: vec![], i: 0, tail: SimRng::new(st.arg(1) ^ 0x1a2b) }) } else { doc.add_salt_in_range(lo_req..=lo_req + span) }) {
                    Ok(Ok(e)) => {
                        if lo_req < 8 {
                            ctx.violate("C17.refusal", format!("add_salt_in_range({}..={}) was not refused", lo_req, lo_req + span));
                        } else if let Some(len) = check_salt_added(ctx, &doc, &e, "add_salt_in_range") {
                            if len < lo_req || len > lo_req + span {
                                ctx.violate("C17.range", format!("add_salt_in_range({}..={}) added {} bytes", lo_req, lo_req + span, len));
                            }
                        }
                    }
                    Ok(Err(_)) => {
                        if lo_req >= 8 {
                            ctx.violate("C17.refusal", format!("add_salt_in_range({}..={}) was refused", lo_req, lo_req + span));
                        } else {
                            ctx.probe("short-salt-refused");
                        }
                    }
                    Err(p) => ctx.violate_sig("C17.range", format!("add_salt_in_range({}..={}) panicked instead of adding the salt or refusing: {}", lo_req, lo_req + span, p), p),
                }
                ctx.t(&format!("Z.InRange {} +{}", lo_req, span));
            }
            "Z.Salted" => {
                let (pi, oi) = (w.idx(st.arg(1)).unwrap_or(d), w.idx(st.arg(2)).unwrap_or(d));
                let (p, o) = (w.docs[pi].env.clone(), w.docs[oi].env.clone());
                let plain = Envelope::new_assertion(p.clone(), o.clone());
                // sometimes the envelope already holds the bare (unsalted) copy of the very assertion
                let doc = if st.arg(3) % 4 == 1 {
                    ctx.probe("salted-add-next-to-bare-copy");
                    doc.add_assertion(p.clone(), o.clone())
                } else {
                    doc
                };
                // unsalted add is deterministic
                ctx.checked();
                let u1 = doc.add_assertion_salted(p.clone(), o.clone(), false);
                let u2 = doc.add_assertion(p.clone(), o.clone());
                if !ident(&u1, &u2) {
                    ctx.violate("C17.unsalted", "add_assertion_salted(.., false) differs from add_assertion".to_string());
                }
                let s1 = match guarded(|| doc.add_assertion_salted(p.clone(), o.clone(), true)) {
                    Ok(e) => e,
                    Err(pn) => {
                        ctx.violate_sig("C16.no-panic", format!("add_assertion_salted panicked: {}", pn), pn);
                        continue;
                    }
                };
                let s2 = doc.add_assertion_salted(p.clone(), o.clone(), true);
                if !ident(&s1.subject(), &doc.subject()) {
                    ctx.violate("C17.content", "add_assertion_salted changed the subject".to_string());
                }
                let added = new_assertions(&doc, &s1);
                if added.len() != 1 || s1.assertions().len() != doc.assertions().len() + 1 {
                    ctx.violate("C17.placement", format!("add_assertion_salted added {} assertions", added.len()));
                } else {
                    let a = &added[0];
                    // the assertion itself, carrying exactly one salt assertion of its own
                    if !ident(&a.subject(), &plain) {
                        ctx.violate("C17.placement", "the salted assertion's subject is not the assertion that was added".to_string());
                    }
                    let own = a.assertions();
                    let salt_count = own.iter().filter(|x| x.as_predicate().map(|pp| digest_of(&pp) == salt_digest()).unwrap_or(false)).count();
                    if own.len() != 1 || salt_count != 1 {
                        ctx.violate("C17.placement", format!("the salted assertion carries {} assertions of its own ({} salt) instead of exactly one salt", own.len(), salt_count));
                    } else if let Ok(s) = own[0].as_object().map(|x| x.extract_subject::<Salt>()).unwrap_or_else(|| Err(anyhow::anyhow!("no object"))) {
                        let an = plain.to_cbor_data().len();
                        let (alo, ahi) = documented_range(an);
                        if s.len() < alo || s.len() > ahi {
                            ctx.violate("C17.range", format!("salt on a {}-byte assertion has {} bytes; documented range {}..={}", an, s.len(), alo, ahi));
                        }
                    } else {
                        ctx.violate("C17.placement", "the salted assertion's salt object is not a Salt".to_string());
                    }
                    // still found by its predicate
                    let before = doc.assertions_with_predicate(p.clone()).len();
                    let after = s1.assertions_with_predicate(p.clone()).len();
                    if after != before + 1 {
                        ctx.violate("C17.found", format!("the salted assertion is not found by its predicate ({} before, {} after)", before, after));
                    }
                    // ... also when a holder has elided the predicate inside it (found by digest)
                    if let Ok(hidden) = guarded(|| s1.elide_removing_target(&p)) {
                        if hidden.assertions_with_predicate(p.clone()).len() != after {
                            ctx.violate("C17.found", "the salted assertion is no longer found by its predicate once that predicate is elided".to_string());
                        }
                        ctx.probe("salted-found-through-elided-predicate");
                    }
                    // the outer envelope got no salt of its own
                    let outer_salts_before = doc.assertions_with_predicate(known_values::SALT).len();
                    let outer_salts_after = s1.assertions_with_predicate(known_values::SALT).len();
                    if digest_of(&p) != salt_digest() && outer_salts_after != outer_salts_before {
                        ctx.violate("C17.placement", "add_assertion_salted salted the outer envelope".to_string());
                    }
                }
                if digest_of(&s1) == digest_of(&s2) {
                    ctx.violate("C17.decorrelate", "two independent salted adds of the same assertion have the same digest".to_string());
                }
                // the batch form: two different assertions handed over in one call
                let plain2 = Envelope::new_assertion(o.clone(), p.clone());
                if digest_of(&plain2) != digest_of(&plain) {
                    ctx.checked();
                    match guarded(|| (doc.add_assertions_salted(&[plain.clone(), plain2.clone()], true), doc.add_assertions_salted(&[plain.clone(), plain2.clone()], false))) {
                        Ok((bs, bu)) => {
                            let added = new_assertions(&doc, &bs);
                            let subjects_ok = added.len() == 2
                                && added.iter().any(|a| ident(&a.subject(), &plain))
                                && added.iter().any(|a| ident(&a.subject(), &plain2))
                                && added.iter().all(|a| a.assertions().len() == 1 && a.assertions()[0].as_predicate().map(|pp| digest_of(&pp) == salt_digest()).unwrap_or(false));
                            if !subjects_ok || !ident(&bs.subject(), &doc.subject()) {
                                ctx.violate("C17.placement", format!("add_assertions_salted(two assertions, true) added {} assertions, or not the two that were handed over each with exactly one salt", added.len()));
                            }
                            let chained = doc.add_assertion(p.clone(), o.clone()).add_assertion(o.clone(), p.clone());
                            if !ident(&bu, &chained) {
                                ctx.violate("C17.unsalted", "add_assertions_salted(.., false) differs from adding the same assertions one by one".to_string());
                            }
                            ctx.probe("salted-batch");
                        }
                        Err(pn) => ctx.violate_sig("C16.no-panic", format!("add_assertions_salted panicked: {}", pn), pn),
                    }
                }
                // the envelope form: the assertion being added already carries an assertion of its own, or is obscured
                let variant = st.arg(3) % 7;
                let decorated = plain.add_assertion("since", (st.arg(3) % 50) as u32);
                let pre: Envelope = match variant {
                    0 => decorated.clone(),
                    1 => plain.elide(),
                    // an assertion that carries an assertion of its own and whose core was then obscured
                    3 => decorated.elide_removing_target(&plain),
                    4 => decorated.elide_removing_target_with_action(&plain, &ObscureAction::Compress),
                    5 => decorated.elide_removing_target_with_action(&plain, &ObscureAction::Encrypt(sym_key(2))),
                    // assertions on two levels: the decorated assertion compressed, decorated again, its subject restored
                    6 => decorated.compress().and_then(|c| c.add_assertion("seen", 1).uncompress_subject()).unwrap_or_else(|_| decorated.clone()),
                    _ => plain.clone(),
                };
                let own_before = pre.assertions().len();
                match guarded(|| doc.add_assertion_envelope_salted(pre.clone(), true)) {
                    Ok(Ok(t1)) => {
                        ctx.checked();
                        let added = new_assertions(&doc, &t1);
                        if added.len() != 1 {
                            ctx.violate("C17.placement", format!("add_assertion_envelope_salted added {} assertions", added.len()));
                        } else {
                            let a = &added[0];
                            if !ident(&a.subject(), &pre.subject()) {
                                ctx.violate("C17.placement", "the salted assertion's subject is not the assertion that was added".to_string());
                            }
                            let own = a.assertions();
                            let salts = own.iter().filter(|x| x.as_predicate().map(|pp| digest_of(&pp) == salt_digest()).unwrap_or(false)).count();
                            if own.len() != own_before + 1 || salts != 1 {
                                ctx.violate("C17.placement", format!("an assertion (variant {}) added as salted carries {} assertions of its own ({} salt); expected {} with exactly one salt", variant, own.len(), salts, own_before + 1));
                            }
                        }
                        if let Ok(Ok(t2)) = guarded(|| doc.add_assertion_envelope_salted(pre.clone(), true)) {
                            if digest_of(&t1) == digest_of(&t2) {
                                ctx.violate("C17.decorrelate", format!("two independent salted adds of the same assertion envelope (variant {}) have the same digest", variant));
                            }
                        }
                        ctx.probe("salted-assertion-envelope");
                    }
                    Ok(Err(e)) => ctx.violate("C17.placement", format!("add_assertion_envelope_salted refused an assertion envelope: {}", e)),
                    Err(pn) => ctx.violate_sig("C16.no-panic", format!("add_assertion_envelope_salted panicked: {}", pn), pn),
                }
                ctx.probe("salted-assertion");
                ctx.t("Z.Salted");
            }
            _ => {}
        }
        ctx.shape_mix(w.docs[d].m.shape_hash() ^ (n as u64));
        if ctx.failed() && ctx.stop_at_first {
            break;
        }
    }
}

pub fn generate_salt(property: &str, r: &mut SimRng, seed: u64) -> Scenario {
    let mut scn = hist::generate(property, r, seed);
    scn.family = "salt".to_string();
    let keep = r.range(2, 8) as usize;
    scn.steps.truncate(keep.max(2));
    let n = r.range(1, 5);
    for _ in 0..n {
        let pad = match r.below(8) {
            0..=2 => 0,
            3 => r.range(1, 80),
            4 => r.range(100, 200),
            5 => r.range(250, 400),
            6 => r.range(400, 3000),
            _ => r.range(3000, 10000),
        };
        match r.below(10) {
            0..=3 => scn.push("Z.AddSalt", &[ds(r), r.next(), 0, 0, pad]),
            4 => scn.push("Z.Extreme", &[ds(r), r.next(), 0, 0, pad]),
            5..=6 => scn.push("Z.WithLen", &[ds(r), r.below(24), r.below(3), 0, pad.min(300)]),
            7 => scn.push("Z.InRange", &[ds(r), r.below(20), r.below(40), r.below(2), pad.min(300)]),
            _ => scn.push("Z.Salted", &[ds(r), ds(r), ds(r), r.below(300), pad.min(300)]),
        }
    }
    scn
}

// ======================================================================================
// C18 expressions, requests, responses, events

fn make_function(code: u64) -> Function {
    match code % 8 {
        0 => Function::from(code / 8 % 8),
        1 => Function::from([1000u64, 65535, 65536, u32::MAX as u64, u64::MAX, 23, 24, 255, 256][(code / 8 % 9) as usize]),
        2 => Function::new_named(&format!("fn{}", code / 8 % 5)),
        3 => Function::new_named("add"),
        4 => Function::new_known(2, Some("add".to_string())), // same text as the named one above, different function
        5 => Function::new_static_named("staticFn"), // a named function declared as a constant
        6 => Function::new_named(""),               // the empty name
        _ => Function::new_named(["2", "\u{e9}t\u{e9}", "a b", "add "][(code / 8 % 4) as usize]), // names that look like numbers, non-ASCII, spaces
    }
}
/// are the functions built from two codes the same function? (decided from how they were built: both
/// known with the same number, or both named with the same text - never by the library's own ==)
fn same_function(a: u64, b: u64) -> bool {
    let key = |code: u64| -> (u8, u64, String) {
        match code % 8 {
            0 => (0, code / 8 % 8, String::new()),
            1 => (0, [1000u64, 65535, 65536, u32::MAX as u64, u64::MAX, 23, 24, 255, 256][(code / 8 % 9) as usize], String::new()),
            2 => (1, 0, format!("fn{}", code / 8 % 5)),
            3 => (1, 0, "add".to_string()),
            4 => (0, 2, String::new()),
            5 => (1, 0, "staticFn".to_string()),
            6 => (1, 0, String::new()),
            _ => (1, 0, ["2", "\u{e9}t\u{e9}", "a b", "add "][(code / 8 % 4) as usize].to_string()),
        }
    };
    key(a) == key(b)
}
fn make_parameter(code: u64) -> Parameter {
    match code % 6 {
        0 => Parameter::from(code / 6 % 6),
        1 => Parameter::new_named(&format!("p{}", code / 6 % 4)),
        2 => Parameter::new_known(1, Some("blank".to_string())),
        3 => Parameter::new_named("blank"),
        4 => Parameter::new_named(""),
        _ => Parameter::from([255u64, 256, 65536, u64::MAX][(code / 6 % 4) as usize]),
    }
}
fn arid(code: u64) -> ARID {
    ARID::from_data(sha(&code.to_le_bytes()))
}
/// a date stamped from the simulated clock: None / integral / fractional / negative
fn sim_date(clock: u64, kind: u64) -> Option<dcbor::Date> {
    let base = 1_600_000_000.0 + clock as f64;
    match kind % 5 {
        0 => None,
        1 => Some(dcbor::Date::from_timestamp(base)),
        2 => Some(dcbor::Date::from_timestamp(base + (kind / 5 % 1000) as f64 / 1000.0 + 0.000123)),
        3 => Some(dcbor::Date::from_timestamp(-(base / 7.0).floor())),
        _ => Some(dcbor::Date::from_timestamp(-(base / 3.0) - 0.25)),
    }
}

fn dates_differ_by_known_rounding(a: Option<&dcbor::Date>, b: Option<&dcbor::Date>) -> bool {
    match (a, b) {
        (Some(x), Some(y)) => {
            let (tx, ty) = (x.timestamp(), y.timestamp());
            // (the two Date values differ - that is why we are here - by at most about a nanosecond; their f64
            // timestamps may even print the same)
            tx.fract() != 0.0 && (tx - ty).abs() <= 2.0e-9 * tx.abs().max(1.0) && (tx - ty).abs() < 1.0e-6
        }
        _ => false,
    }
}

pub fn run_expr(scn: &Scenario, ctx: &mut Ctx) {
    let mut w = World::new(scn.cfg("leafdom", crate::gen::DOM_ALL));
    let mut clock: u64 = 0;
    for (i, st) in scn.steps.iter().enumerate() {
        ctx.step = i;
        ctx.sim_ticks += 1;
        clock += 1 + st.arg(5) % 100_000;
        let op = st.op.as_str();
        if !op.starts_with("X.") {
            if !matches!(hist::exec_step(&mut w, ctx, st), StepResult::Skipped) {
                ctx.executed += 1;
            }
            continue;
        }
        let d = match w.idx(st.arg(0)) {
            Some(d) => d,
            None => continue,
        };
        ctx.executed += 1;
        let val = w.docs[d].env.clone();
        let val2 = w.docs[w.idx(st.arg(0) + 1).unwrap_or(d)].env.clone();
        let f = make_function(st.arg(1));
        let other_code = st.arg(1) + 1 + st.arg(2) % 4;
        let other_f = make_function(other_code);
        let functions_differ = !same_function(st.arg(1), other_code);
        match op {
            "X.Expression" => {
                // the well-known functions and parameters are the documented numbers, pairwise different
                {
                    use bc_envelope::extension::expressions::{functions, parameters};
                    let table: [(&Function, u64, &str); 15] = [(&functions::ADD, 1, "add"), (&functions::SUB, 2, "sub"), (&functions::MUL, 3, "mul"), (&functions::DIV, 4, "div"), (&functions::NEG, 5, "neg"), (&functions::LT, 6, "lt"), (&functions::LE, 7, "le"), (&functions::GT, 8, "gt"), (&functions::GE, 9, "ge"), (&functions::EQ, 10, "eq"), (&functions::NE, 11, "ne"), (&functions::AND, 12, "and"), (&functions::OR, 13, "or"), (&functions::XOR, 14, "xor"), (&functions::NOT, 15, "not")];
                    let k = (st.arg(1) % 15) as usize;
                    let (cf, id, name) = table[k];
                    ctx.checked();
                    let want: Envelope = Expression::new(Function::from(id)).into();
                    let got: Envelope = Expression::new(cf.clone()).into();
                    if digest_of(&got) != digest_of(&want) || cf.name() != name {
                        ctx.violate("C18.shape", format!("the well-known function '{}' is not function {} on the wire", name, id));
                    }
                    let other = table[(k + 1 + (st.arg(2) % 14) as usize) % 15].0;
                    if let Ok(Ok(_)) = guarded(|| Expression::try_from((got.clone(), Some(other)))) {
                        ctx.violate("C18.malformed", format!("an expression calling '{}' was accepted where '{}' was expected", name, other.name()));
                    }
                    let ptable: [(&Parameter, u64); 3] = [(&parameters::BLANK, 1), (&parameters::LHS, 2), (&parameters::RHS, 3)];
                    let (cp, pid) = ptable[(st.arg(2) % 3) as usize];
                    if *cp != Parameter::from(pid) {
                        ctx.violate("C18.shape", format!("a well-known parameter is not parameter {}", pid));
                    }
                }
                let mut e = Expression::new(f.clone()).with_parameter(make_parameter(st.arg(2)), val.clone());
                if st.arg(3) % 2 == 0 {
                    // a repeated parameter
                    e = e.with_parameter(make_parameter(st.arg(2)), val2.clone());
                    ctx.probe("repeated-parameter");
                }
                if st.arg(3) % 3 == 0 {
                    e = e.with_optional_parameter(make_parameter(st.arg(2) + 1), None::<Envelope>);
                }
                let env: Envelope = e.clone().into();
                ctx.checked();
                for direct in [true, false] {
                    let rx = if direct { Some(env.clone()) } else { transmit(ctx, &env) };
                    let rx = match rx {
                        Some(x) => x,
                        None => {
                            ctx.violate("C18.transport", "expression envelope does not survive encode/decode".to_string());
                            continue;
                        }
                    };
                    match guarded(|| Expression::try_from(rx.clone())) {
                        Ok(Ok(p)) => {
                            if p != e {
                                ctx.violate("C18.roundtrip", "parsed Expression differs from the original".to_string());
                            }
                            let objs = p.objects_for_parameter(make_parameter(st.arg(2)));
                            let want = if st.arg(3) % 2 == 0 && digest_of(&val) != digest_of(&val2) { 2 } else { 1 };
                            if objs.len() != want {
                                ctx.violate("C18.roundtrip", format!("{} parameter values come back instead of {}", objs.len(), want));
                            }
                            // the parameter itself comes back as the value it was (read from the predicate of its assertion)
                            let wanted = make_parameter(st.arg(2));
                            let back: Vec<Result<Parameter, String>> = rx.assertions().iter().filter_map(|a| a.as_predicate()).map(|pr| pr.extract_subject::<Parameter>().map_err(|e| e.to_string())).collect();
                            if !back.iter().any(|r| r.as_ref().map(|x| *x == wanted).unwrap_or(false)) {
                                ctx.violate("C18.roundtrip", format!("the parameter of the expression does not come back from the predicate of its assertion: {:?}", back.iter().map(|r| r.as_ref().map(|x| x.name()).map_err(|e| e.clone())).collect::<Vec<_>>()));
                            }
                            // function and parameter travel as URs of their own types
                            let (fu, pu) = (f.ur_string(), wanted.ur_string());
                            if !fu.starts_with("ur:function/") || !pu.starts_with("ur:parameter/") {
                                ctx.violate("C18.roundtrip", format!("a function / parameter is published under the wrong UR type: {} / {}", &fu[..fu.len().min(24)], &pu[..pu.len().min(24)]));
                            }
                            if Function::from_ur_string(&fu).ok().as_ref() != Some(&f) || Parameter::from_ur_string(&pu).ok().as_ref() != Some(&wanted) {
                                ctx.violate("C18.roundtrip", "a function / parameter does not come back from its UR string".to_string());
                            }
                            if Function::from_ur_string(&pu).is_ok() || Parameter::from_ur_string(&fu).is_ok() {
                                ctx.violate("C18.malformed", "a parameter's UR was accepted as a function (or the reverse)".to_string());
                            }
                        }
                        Ok(Err(er)) => ctx.violate("C18.roundtrip", format!("Expression does not parse back: {}", er)),
                        Err(pn) => ctx.violate_sig("C16.no-panic", format!("Expression::try_from panicked: {}", pn), pn),
                    }
                    // expected function
                    match guarded(|| Expression::try_from((rx.clone(), Some(&f)))) {
                        Ok(Ok(_)) => {}
                        Ok(Err(er)) => ctx.violate("C18.roundtrip", format!("parsing with the right expected function failed: {}", er)),
                        Err(pn) => ctx.violate_sig("C16.no-panic", format!("Expression::try_from panicked: {}", pn), pn),
                    }
                    // wrongly tagged subject: the function's content without the function tag, or under another tag
                    {
                        ctx.fault("cbor.struct.retag-subject");
                        let content: CBOR = match f.named_name() {
                            Some(n) => CBOR::from(n),
                            None => CBOR::from(st.arg(1) / 8 % 8),
                        };
                        for (what, subject) in [("without the function tag", Envelope::new(content.clone())), ("under the parameter tag", Envelope::new(CBOR::to_tagged_value(40007u64, content.clone())))] {
                            let bad = rx.replace_subject(subject);
                            ctx.checked();
                            if let Ok(Ok(_)) = guarded(|| Expression::try_from(bad.clone())) {
                                ctx.violate("C18.malformed", format!("an expression whose subject is the function's content {} was accepted", what));
                            }
                            if let Ok(Ok(_)) = guarded(|| Expression::try_from((bad.clone(), Some(&f)))) {
                                ctx.violate("C18.malformed", format!("an expression whose subject is the function's content {} was accepted (expected function given)", what));
                            }
                        }
                    }
                    if functions_differ {
                        ctx.fault("cbor.struct.replace-function");
                        if let Ok(Ok(_)) = guarded(|| Expression::try_from((rx.clone(), Some(&other_f)))) {
                            ctx.violate("C18.malformed", "an expression with another function than the expected one was accepted".to_string());
                        }
                        if f.name() == other_f.name() {
                            ctx.probe("named-vs-known-function-equal-text");
                        }
                    }
                }
                ctx.t("X.Expression");
            }
            "X.Request" => {
                let note = match st.arg(3) % 7 {
                    0 | 3 => String::new(),
                    1 => " ".to_string(),
                    2 => "\t\n".to_string(),
                    4 => format!(" padded {} ", st.arg(3) % 50),
                    _ => format!("note-{}", st.arg(3) % 50),
                };
                if !note.is_empty() && note.trim().is_empty() {
                    ctx.probe("whitespace-only-note");
                }
                let date = sim_date(clock, st.arg(4));
                let mut rq = if st.arg(2) % 3 == 1 {
                    // the same request built from a ready-made expression
                    Request::new_with_body(Expression::new(f.clone()).with_parameter(make_parameter(st.arg(2)), val.clone()), arid(st.arg(2)))
                } else {
                    Request::new(f.clone(), arid(st.arg(2))).with_parameter(make_parameter(st.arg(2)), val.clone())
                };
                let mut want_body = Expression::new(f.clone()).with_parameter(make_parameter(st.arg(2)), val.clone());
                if st.arg(3) % 2 == 0 {
                    rq = rq.with_parameter(make_parameter(st.arg(2) + 1), val2.clone());
                    want_body = want_body.with_parameter(make_parameter(st.arg(2) + 1), val2.clone());
                }
                // optional parameters through the request-level builder: None adds nothing, Some(v) adds the parameter
                match st.arg(3) / 7 % 4 {
                    0 => {
                        rq = rq.with_optional_parameter(make_parameter(st.arg(2) + 2), None::<Envelope>);
                        ctx.probe("request-optional-parameter-none");
                    }
                    1 => {
                        rq = rq.with_optional_parameter(make_parameter(st.arg(2) + 2), Some(val2.clone()));
                        want_body = want_body.with_parameter(make_parameter(st.arg(2) + 2), val2.clone());
                    }
                    _ => {}
                }
                ctx.checked();
                if *rq.body() != want_body {
                    ctx.violate("C18.shape", "the body of a request built with the request-level parameter calls differs from the expression built from the same parameters (an optional parameter of None adds nothing)".to_string());
                }
                if !note.is_empty() || st.arg(3) % 7 == 3 {
                    rq = rq.with_note(note.clone());
                }
                if let Some(dt) = &date {
                    rq = rq.with_date(dt);
                    if dt.timestamp().fract() != 0.0 && dt.timestamp() < 0.0 {
                        ctx.probe("fractional-negative-date");
                    }
                }
                let env: Envelope = rq.clone().into();
                ctx.checked();
                // documented shape
                if env.subject().as_leaf().is_none() || env.assertions_with_predicate(known_values::BODY).len() != 1 {
                    ctx.violate("C18.shape", "request envelope lacks a tagged leaf subject or a single 'body' assertion".to_string());
                }
                if env.assertions_with_predicate(known_values::NOTE).len() != (!note.is_empty()) as usize || env.assertions_with_predicate(known_values::DATE).len() != date.is_some() as usize {
                    ctx.violate("C18.shape", "request envelope's optional 'note'/'date' assertions do not match the request".to_string());
                }
                for direct in [true, false] {
                    let rx = if direct { Some(env.clone()) } else { transmit(ctx, &env) };
                    let rx = match rx {
                        Some(x) => x,
                        None => {
                            ctx.violate("C18.transport", "request envelope does not survive encode/decode".to_string());
                            continue;
                        }
                    };
                    match guarded(|| Request::try_from(rx.clone())) {
                        Ok(Ok(p)) => {
                            if p != rq {
                                let only_date = p.body() == rq.body() && p.id() == rq.id() && p.note() == rq.note();
                                if only_date && dates_differ_by_known_rounding(rq.date(), p.date()) {
                                    ctx.violate_sig("C18.roundtrip", format!("request date {:?} came back as {:?}", rq.date().map(|d| d.timestamp()), p.date().map(|d| d.timestamp())), "dcbor-date-fraction".to_string());
                                } else {
                                    ctx.violate("C18.roundtrip", format!("parsed Request differs from the original (note {:?} vs {:?}, date {:?} vs {:?})", p.note(), rq.note(), p.date().map(|d| d.timestamp()), rq.date().map(|d| d.timestamp())));
                                }
                            }
                        }
                        Ok(Err(er)) => ctx.violate("C18.roundtrip", format!("Request does not parse back: {}", er)),
                        Err(pn) => ctx.violate_sig("C16.no-panic", format!("Request::try_from panicked: {}", pn), pn),
                    }
                    if functions_differ {
                        ctx.fault("cbor.struct.replace-function");
                        if let Ok(Ok(_)) = guarded(|| Request::try_from((rx.clone(), Some(&other_f)))) {
                            ctx.violate("C18.malformed", "a request with another function than the expected one was accepted".to_string());
                        }
                    }
                    if let Ok(Err(er)) = guarded(|| Request::try_from((rx.clone(), Some(&f)))) {
                        ctx.violate("C18.roundtrip", format!("parsing a request with the right expected function failed: {}", er));
                    }
                    // wrongly tagged subject: a request is neither a response nor an event
                    ctx.fault("cbor.struct.retag-subject");
                    if let Ok(Ok(_)) = guarded(|| Response::try_from(rx.clone())) {
                        ctx.violate("C18.malformed", "a request envelope parsed as a Response".to_string());
                    }
                    if let Ok(Ok(_)) = guarded(|| Event::<Envelope>::try_from(rx.clone())) {
                        ctx.violate("C18.malformed", "a request envelope parsed as an Event".to_string());
                    }
                    // retag in flight: same assertions around a response-tagged subject
                    let retagged = rx.replace_subject(Envelope::new(CBOR::to_tagged_value(40005u64, arid(st.arg(2)))));
                    if let Ok(Ok(_)) = guarded(|| Request::try_from(retagged.clone())) {
                        ctx.violate("C18.malformed", "a request whose subject carries the response tag was accepted".to_string());
                    }
                }
                ctx.t("X.Request");
            }
            "X.Dates" => {
                // many dates from the simulated clock through one request each: integral, fractional, negative
                let mut r = SimRng::new(st.arg(2));
                for k in 0..200u64 {
                    let t = match k % 4 {
                        0 => (clock + r.below(4_000_000_000)) as f64,
                        1 => (clock + r.below(4_000_000_000)) as f64 + (r.below(1_000_000) as f64) / 1_000_000.0,
                        2 => -((clock + r.below(2_000_000_000)) as f64) - (r.below(1_000_000) as f64) / 1_000_000.0,
                        _ => (r.below(100_000_000) as f64) + (r.below(1_000_000_000) as f64) / 1_000_000_000.0,
                    };
                    let dt = dcbor::Date::from_timestamp(t);
                    let rq = Request::new(f.clone(), arid(st.arg(2) ^ k)).with_date(&dt);
                    let env: Envelope = rq.clone().into();
                    let rx = match transmit(ctx, &env) {
                        Some(x) => x,
                        None => continue,
                    };
                    ctx.checked();
                    match guarded(|| Request::try_from(rx.clone())) {
                        Ok(Ok(p)) => {
                            if p != rq {
                                let only_date = p.body() == rq.body() && p.id() == rq.id() && p.note() == rq.note();
                                if only_date && dates_differ_by_known_rounding(rq.date(), p.date()) {
                                    ctx.violate_sig("C18.roundtrip", format!("request date {:?} came back as {:?}", rq.date().map(|d| d.timestamp()), p.date().map(|d| d.timestamp())), "dcbor-date-fraction".to_string());
                                } else {
                                    ctx.violate("C18.roundtrip", format!("parsed Request differs from the original (date {:?} vs {:?})", p.date().map(|d| d.timestamp()), rq.date().map(|d| d.timestamp())));
                                }
                            }
                        }
                        Ok(Err(er)) => ctx.violate("C18.roundtrip", format!("Request with date {} does not parse back: {}", t, er)),
                        Err(pn) => ctx.violate_sig("C16.no-panic", format!("Request::try_from panicked: {}", pn), pn),
                    }
                    if ctx.failed() {
                        break;
                    }
                }
                ctx.probe("date-sweep");
                ctx.t("X.Dates");
            }
            "X.Response" => {
                let id = arid(st.arg(2));
                let kind = st.arg(3) % 4;
                // the documented defaults: a success without a result says 'OK', a failure without an error 'Unknown'
                let plain_failure = kind == 2 && st.arg(4) % 3 == 0;
                let rs = match kind {
                    0 => Response::new_success(id).with_result(val.clone()),
                    1 => Response::new_success(id), // default OK result
                    2 if plain_failure => Response::new_failure(id),
                    2 => Response::new_failure(id).with_error(val.clone()),
                    _ => {
                        ctx.probe("early-failure");
                        Response::new_early_failure().with_error(val.clone())
                    }
                };
                let env: Envelope = rs.clone().into();
                ctx.checked();
                let nres = env.assertions_with_predicate(known_values::RESULT).len();
                let nerr = env.assertions_with_predicate(known_values::ERROR).len();
                if (kind < 2 && (nres, nerr) != (1, 0)) || (kind >= 2 && (nres, nerr) != (0, 1)) {
                    ctx.violate("C18.shape", format!("response envelope has {} result and {} error assertions", nres, nerr));
                }
                if kind == 1 || plain_failure {
                    let (pred, want) = if kind == 1 { (known_values::RESULT, known_values::OK_VALUE) } else { (known_values::ERROR, known_values::UNKNOWN_VALUE) };
                    let got = env.object_for_predicate(pred).ok().map(|o| digest_of(&o));
                    if got != Some(digest_of(&Envelope::new(want))) {
                        ctx.violate("C18.shape", format!("a {} built without an explicit value does not carry the documented default", if kind == 1 { "success" } else { "failure" }));
                    }
                    ctx.probe("response-default-value");
                }
                for direct in [true, false] {
                    let rx = if direct { Some(env.clone()) } else { transmit(ctx, &env) };
                    let rx = match rx {
                        Some(x) => x,
                        None => {
                            ctx.violate("C18.transport", "response envelope does not survive encode/decode".to_string());
                            continue;
                        }
                    };
                    match guarded(|| Response::try_from(rx.clone())) {
                        Ok(Ok(p)) => {
                            if p != rs {
                                ctx.violate("C18.roundtrip", "parsed Response differs from the original".to_string());
                            }
                            if p.is_ok() != (kind < 2) {
                                ctx.violate("C18.roundtrip", "success/failure flipped in the round trip".to_string());
                            }
                        }
                        Ok(Err(er)) => ctx.violate("C18.roundtrip", format!("Response does not parse back: {}", er)),
                        Err(pn) => ctx.violate_sig("C16.no-panic", format!("Response::try_from panicked: {}", pn), pn),
                    }
                    // single mutations in flight
                    let extra = Envelope::new(format!("x{}", st.arg(4) % 9));
                    let both = if kind < 2 { rx.add_assertion(known_values::ERROR, extra.clone()) } else { rx.add_assertion(known_values::RESULT, extra.clone()) };
                    ctx.fault("cbor.struct.add-result-or-error");
                    if let Ok(Ok(_)) = guarded(|| Response::try_from(both.clone())) {
                        ctx.violate("C18.malformed", "a response with both a result and an error was accepted".to_string());
                    }
                    let neither = rx.subject();
                    ctx.fault("cbor.struct.remove-result-or-error");
                    if let Ok(Ok(_)) = guarded(|| Response::try_from(neither.clone())) {
                        ctx.violate("C18.malformed", "a response with neither result nor error was accepted".to_string());
                    }
                    ctx.fault("cbor.struct.retag-subject");
                    let retagged = rx.replace_subject(Envelope::new(CBOR::to_tagged_value(40004u64, id.clone())));
                    if let Ok(Ok(_)) = guarded(|| Response::try_from(retagged.clone())) {
                        ctx.violate("C18.malformed", "a response whose subject carries the request tag was accepted".to_string());
                    }
                    if let Ok(Ok(_)) = guarded(|| Request::try_from(rx.clone())) {
                        ctx.violate("C18.malformed", "a response envelope parsed as a Request".to_string());
                    }
                }
                ctx.t("X.Response");
            }
            "X.Event" => {
                let note = match st.arg(3) % 7 {
                    0 | 3 => String::new(),
                    1 => " ".to_string(),
                    2 => "\n".to_string(),
                    _ => format!("n{}", st.arg(3) % 50),
                };
                let date = sim_date(clock, st.arg(4));
                let content = format!("content-{}", st.arg(2) % 1000);
                let mut ev = Event::<String>::new(content.clone(), arid(st.arg(2)));
                if !note.is_empty() || st.arg(3) % 7 == 3 {
                    // (case 3: an explicitly empty note - the same as no note)
                    ev = ev.with_note(note.clone());
                }
                if let Some(dt) = &date {
                    ev = ev.with_date(dt);
                }
                let env: Envelope = ev.clone().into();
                ctx.checked();
                if env.assertions_with_predicate(known_values::CONTENT).len() != 1 {
                    ctx.violate("C18.shape", "event envelope lacks a single 'content' assertion".to_string());
                }
                for direct in [true, false] {
                    let rx = if direct { Some(env.clone()) } else { transmit(ctx, &env) };
                    let rx = match rx {
                        Some(x) => x,
                        None => continue,
                    };
                    match guarded(|| Event::<String>::try_from(rx.clone())) {
                        Ok(Ok(p)) => {
                            if p != ev {
                                let only_date = p.content() == ev.content() && p.id() == ev.id() && p.note() == ev.note();
                                if only_date && dates_differ_by_known_rounding(ev.date(), p.date()) {
                                    ctx.violate_sig("C18.roundtrip", format!("event date {:?} came back as {:?}", ev.date().map(|d| d.timestamp()), p.date().map(|d| d.timestamp())), "dcbor-date-fraction".to_string());
                                } else {
                                    ctx.violate("C18.roundtrip", "parsed Event differs from the original".to_string());
                                }
                            }
                        }
                        Ok(Err(er)) => ctx.violate("C18.roundtrip", format!("Event does not parse back: {}", er)),
                        Err(pn) => ctx.violate_sig("C16.no-panic", format!("Event::try_from panicked: {}", pn), pn),
                    }
                    ctx.fault("cbor.struct.retag-subject");
                    if let Ok(Ok(_)) = guarded(|| Request::try_from(rx.clone())) {
                        ctx.violate("C18.malformed", "an event envelope parsed as a Request".to_string());
                    }
                    let retagged = rx.replace_subject(Envelope::new(CBOR::to_tagged_value(40004u64, arid(st.arg(2)))));
                    if let Ok(Ok(_)) = guarded(|| Event::<String>::try_from(retagged.clone())) {
                        ctx.violate("C18.malformed", "an event whose subject carries the request tag was accepted".to_string());
                    }
                }
                ctx.t("X.Event");
            }
            _ => {}
        }
        ctx.shape_mix(w.docs[d].m.shape_hash() ^ st.arg(1) % 6);
        if ctx.failed() && ctx.stop_at_first {
            break;
        }
    }
}

pub fn generate_expr(property: &str, r: &mut SimRng, seed: u64) -> Scenario {
    let mut scn = hist::generate(property, r, seed);
    scn.family = "expr".to_string();
    let keep = r.range(2, 8) as usize;
    scn.steps.truncate(keep.max(2));
    let n = r.range(1, 5);
    for _ in 0..n {
        let op = *r.pick(&["X.Expression", "X.Request", "X.Request", "X.Response", "X.Response", "X.Event", "X.Dates"]);
        scn.push(op, &[ds(r), r.below(600), r.below(10000), r.below(60), r.below(5000), r.below(100000)]);
    }
    scn
}

// ======================================================================================
// C19 attachments and types

const VENDORS: [&str; 4] = ["com.example", "com.example.sub", "org.other", "com.exampl"];
const CONFORMS: [Option<&str>; 5] = [None, Some("https://example.com/v1"), Some("https://example.com/v2"), Some("https://example.com/v"), Some("")];

pub fn run_attach(scn: &Scenario, ctx: &mut Ctx) {
    let mut w = World::new(scn.cfg("leafdom", crate::gen::DOM_ALL));
    for (i, st) in scn.steps.iter().enumerate() {
        ctx.step = i;
        ctx.sim_ticks += 1;
        let op = st.op.as_str();
        if !op.starts_with("A.") {
            if !matches!(hist::exec_step(&mut w, ctx, st), StepResult::Skipped) {
                ctx.executed += 1;
            }
            continue;
        }
        let d = match w.idx(st.arg(0)) {
            Some(d) => d,
            None => continue,
        };
        ctx.executed += 1;
        let base = w.docs[d].env.clone();
        if !base.assertions_with_predicate(known_values::ATTACHMENT).is_empty() || !base.assertions_with_predicate(known_values::IS_A).is_empty() {
            continue;
        }
        let mut r = SimRng::new(st.arg(1));
        match op {
            "A.Attach" | "A.Malformed" => {
                // contributions: (payload doc, vendor, conformsTo), possibly repeated; delivered to two
                // replicas in different orders and with duplication (net.delay / net.dup)
                let k = r.range(1, 5) as usize;
                let mut contrib: Vec<(usize, usize, usize)> = vec![];
                for _ in 0..k {
                    let pd = w.idx(r.below(6)).unwrap_or(d);
                    contrib.push((pd, r.below(4) as usize, r.below(5) as usize));
                }
                if r.chance(1, 3) {
                    let c = contrib[0];
                    contrib.push(c);
                    ctx.fault("net.dup");
                }
                let build = |order: &[usize]| -> Envelope {
                    let mut e = base.clone();
                    for &ix in order {
                        let (pd, v, c) = contrib[ix];
                        // either in one call, or by building the attachment assertion first
                        e = if (ix + v) % 2 == 0 {
                            e.add_attachment(w.docs[pd].env.clone(), VENDORS[v], CONFORMS[c])
                        } else {
                            match e.add_assertion_envelope(Envelope::new_attachment(w.docs[pd].env.clone(), VENDORS[v], CONFORMS[c])) {
                                Ok(x) => x,
                                Err(_) => e, // (the query oracle below then misses this attachment)
                            }
                        };
                    }
                    e
                };
                let order1: Vec<usize> = (0..contrib.len()).collect();
                let mut order2 = order1.clone();
                r.shuffle(&mut order2);
                ctx.fault("net.delay");
                let e1 = match guarded(|| build(&order1)) {
                    Ok(e) => e,
                    Err(p) => {
                        ctx.violate_sig("C16.no-panic", format!("add_attachment panicked: {}", p), p);
                        continue;
                    }
                };
                let e2 = build(&order2);
                // (order independence of assembly is C07's statement, not C19's; the second replica is only
                // used below to check that queries agree whichever order the contributions arrived in)
                let _ = &e2;
                // model: distinct (payload bytes, vendor, conformsTo)
                // keyed by the payload's digest: an equivalent attachment (same digests) contributed twice is one assertion
                let model: BTreeSet<(Vec<u8>, String, Option<String>)> = contrib.iter().map(|(pd, v, c)| (w.docs[*pd].m.digest().to_vec(), VENDORS[*v].to_string(), CONFORMS[*c].map(|s| s.to_string()))).collect();
                let rx = match transmit(ctx, &e1) {
                    Some(x) => x,
                    None => {
                        ctx.violate("C19.transport", "envelope with attachments does not survive encode/decode".to_string());
                        continue;
                    }
                };
                if op == "A.Malformed" {
                    // one attachment assertion altered in flight
                    let atts = rx.assertions_with_predicate(known_values::ATTACHMENT);
                    if atts.is_empty() {
                        continue;
                    }
                    let a = atts[(st.arg(2) % atts.len() as u64) as usize].clone();
                    let obj = a.as_object().unwrap();
                    let bad_obj = match st.arg(3) % 6 {
                        5 => {
                            ctx.fault("cbor.struct.extra-assertion-on-attachment");
                            obj.add_assertion("unexpected", 1)
                        }
                        0 => {
                            ctx.fault("cbor.struct.vendor-removed");
                            match obj.assertion_with_predicate(known_values::VENDOR) {
                                Ok(va) => obj.remove_assertion(va),
                                Err(_) => continue,
                            }
                        }
                        1 => {
                            ctx.fault("cbor.struct.vendor-duplicated");
                            obj.add_assertion(known_values::VENDOR, "second.vendor")
                        }
                        2 => {
                            ctx.fault("cbor.struct.payload-unwrapped");
                            match obj.unwrap_envelope() {
                                Ok(inner) => {
                                    // if the payload is itself a wrapped envelope the result is a well-formed
                                    // attachment of the inner payload, not a malformed one
                                    if inner.is_node() || inner.is_wrapped() {
                                        continue;
                                    }
                                    obj.replace_subject(inner)
                                }
                                Err(_) => continue,
                            }
                        }
                        3 => {
                            ctx.fault("cbor.struct.conformsTo-duplicated");
                            obj.add_assertion(known_values::CONFORMS_TO, "https://other/a").add_assertion(known_values::CONFORMS_TO, "https://other/b")
                        }
                        _ => {
                            ctx.fault("cbor.struct.vendor-not-text");
                            match obj.assertion_with_predicate(known_values::VENDOR) {
                                Ok(va) => obj.remove_assertion(va).add_assertion(known_values::VENDOR, 42),
                                Err(_) => continue,
                            }
                        }
                    };
                    // (every seventh time the alteration is on the assertion itself: an assertion hung on it)
                    let bad_assertion = if st.arg(3) % 7 == 6 {
                        ctx.fault("cbor.struct.assertion-on-attachment-assertion");
                        a.add_assertion("altered", 1)
                    } else {
                        Envelope::new_assertion(known_values::ATTACHMENT, bad_obj)
                    };
                    // by digest the altered assertion may coincide with another, well-formed attachment
                    // (e.g. an encrypted payload unwrapped = the digest of a wrapped payload): then nothing malformed remains
                    if rx.assertions().iter().any(|x| digest_of(x) == digest_of(&bad_assertion)) {
                        continue;
                    }
                    let bad = match rx.replace_assertion(a, bad_assertion) {
                        Ok(b) => b,
                        Err(_) => continue,
                    };
                    let bad = match transmit(ctx, &bad) {
                        Some(b) => b,
                        None => continue,
                    };
                    ctx.checked();
                    match guarded(|| bad.attachments()) {
                        Ok(Ok(_)) => ctx.violate("C19.invalid", format!("a malformed attachment assertion (case {}) was not reported invalid", st.arg(3) % 5)),
                        Ok(Err(_)) => ctx.probe("malformed-attachment-rejected"),
                        Err(p) => ctx.violate_sig("C16.no-panic", format!("attachments() panicked on a malformed attachment: {}", p), p),
                    }
                    // ... and by the container that loads all attachments of an envelope
                    ctx.checked();
                    match guarded(|| bc_envelope::Attachments::try_from_envelope(&bad)) {
                        Ok(Ok(_)) => ctx.violate("C19.invalid", format!("Attachments::try_from_envelope loaded an envelope with a malformed attachment assertion (case {}) without reporting it", st.arg(3) % 6)),
                        Ok(Err(_)) => ctx.probe("container-rejects-malformed"),
                        Err(p) => ctx.violate_sig("C16.no-panic", format!("Attachments::try_from_envelope panicked on a malformed attachment: {}", p), p),
                    }
                    // ... whatever filter is given (including filters that would not select the malformed one)
                    for vf in 0..4usize {
                        for cf in [None, Some("https://example.com/v1"), Some("https://nobody")] {
                            ctx.checked();
                            if let Ok(Ok(_)) = guarded(|| bad.attachments_with_vendor_and_conforms_to(Some(VENDORS[vf]), cf)) {
                                ctx.violate("C19.invalid", format!("a malformed attachment assertion (case {}) was not reported invalid under the filter vendor={} conformsTo={:?}", st.arg(3) % 5, VENDORS[vf], cf));
                            }
                            if let Ok(Ok(_)) = guarded(|| bad.attachment_with_vendor_and_conforms_to(Some(VENDORS[vf]), cf)) {
                                ctx.violate("C19.invalid", format!("the single-result query ignored a malformed attachment assertion (case {}) under the filter vendor={} conformsTo={:?}", st.arg(3) % 5, VENDORS[vf], cf));
                            }
                        }
                    }
                    ctx.t("A.Malformed");
                    continue;
                }
                let triple = |a: &Envelope| -> Option<(Vec<u8>, String, Option<String>)> { Some((digest_of(&a.attachment_payload().ok()?).to_vec(), a.attachment_vendor().ok()?, a.attachment_conforms_to().ok()?)) };
                match guarded(|| rx.attachments()) {
                    Ok(Ok(list)) => {
                        let got: BTreeSet<_> = list.iter().filter_map(triple).collect();
                        if got != model || list.len() != model.len() {
                            ctx.violate("C19.all", format!("attachments() returned {} attachments ({} distinct), {} were added", list.len(), got.len(), model.len()));
                        }
                    }
                    Ok(Err(e)) => ctx.violate("C19.all", format!("attachments() failed on well-formed attachments: {}", e)),
                    Err(p) => ctx.violate_sig("C16.no-panic", format!("attachments() panicked: {}", p), p),
                }
                // the container route: the same contributions collected in an `Attachments` value and added in one go
                // give the same attachments, and loading the container back from the delivered envelope finds each one
                ctx.checked();
                let via_container = guarded(|| {
                    let mut c = bc_envelope::Attachments::new();
                    for (pd, v, cf) in &contrib {
                        c.add(w.docs[*pd].env.clone(), VENDORS[*v], CONFORMS[*cf]);
                    }
                    let assembled = c.add_to_envelope(base.clone());
                    let loaded = bc_envelope::Attachments::try_from_envelope(&rx).map_err(|e| e.to_string());
                    (assembled, loaded)
                });
                match via_container {
                    Ok((assembled, loaded)) => {
                        // (compared by digest and by what the query returns: two contributions whose payloads have the same
                        // digest but differ in what is elided inside are one attachment, and which copy is kept is not fixed)
                        let got: Option<BTreeSet<_>> = assembled.attachments().ok().map(|l| l.iter().filter_map(triple).collect());
                        if digest_of(&assembled) != digest_of(&e1) || got.as_ref() != Some(&model) {
                            ctx.violate("C19.all", "adding the attachments through an Attachments container gives another envelope than adding them one by one".to_string());
                        }
                        match loaded {
                            Ok(c) => {
                                for a in e1.assertions_with_predicate(known_values::ATTACHMENT) {
                                    match c.get(&bc_components::Digest::from_data(digest_of(&a))) {
                                        Some(x) if ident(x, &a) => {}
                                        _ => {
                                            ctx.violate("C19.all", "an added attachment is not found (identical) in the container loaded from the envelope".to_string());
                                            break;
                                        }
                                    }
                                }
                                // adding the loaded container to the envelope it came from adds nothing
                                let again = c.add_to_envelope(rx.clone());
                                if digest_of(&again) != digest_of(&rx) || again.attachments().map(|l| l.len()).unwrap_or(usize::MAX) != model.len() {
                                    ctx.violate("C19.all", "adding a container to an envelope that already carries its attachments changes the envelope".to_string());
                                }
                                if c.is_empty() != model.is_empty() {
                                    ctx.violate("C19.all", "the container loaded from the envelope is empty although attachments were added".to_string());
                                }
                                ctx.probe("container-route");
                            }
                            Err(e) => ctx.violate("C19.all", format!("Attachments::try_from_envelope failed on well-formed attachments: {}", e)),
                        }
                    }
                    Err(p) => ctx.violate_sig("C16.no-panic", format!("the Attachments container panicked: {}", p), p),
                }
                // a holder who elides the 'attachment' predicate itself hides nothing from the query (found by digest)
                if let Some(rx2) = transmit(ctx, &rx.elide_removing_target(&Envelope::new(known_values::ATTACHMENT))) {
                    ctx.checked();
                    ctx.probe("attachment-predicate-obscured");
                    match guarded(|| rx2.attachments()) {
                        Ok(Ok(list)) => {
                            let got: BTreeSet<_> = list.iter().filter_map(triple).collect();
                            if got != model {
                                ctx.violate("C19.all", format!("with the 'attachment' predicate elided, attachments() returns {} of the {} attachments", got.len(), model.len()));
                            }
                        }
                        Ok(Err(e)) => ctx.violate("C19.all", format!("with the 'attachment' predicate elided, attachments() fails: {}", e)),
                        Err(p) => ctx.violate_sig("C16.no-panic", format!("attachments() panicked with an elided predicate: {}", p), p),
                    }
                }
                // validation asked of one assertion directly: a well-formed attachment object is an attachment only under
                // the 'attachment' predicate
                if let Some(a) = rx.assertions_with_predicate(known_values::ATTACHMENT).first() {
                    if let Some(obj) = a.as_object() {
                        ctx.checked();
                        if guarded(|| a.validate_attachment().is_ok()) != Ok(true) {
                            ctx.violate("C19.invalid", "validate_attachment rejects a well-formed attachment assertion".to_string());
                        }
                        for (what, wrong) in [("the text \"attachment\"", Envelope::new_assertion("attachment", obj.clone())), ("'note'", Envelope::new_assertion(known_values::NOTE, obj.clone())), ("'vendor'", Envelope::new_assertion(known_values::VENDOR, obj.clone()))] {
                            if guarded(|| wrong.validate_attachment().is_ok()) == Ok(true) {
                                ctx.violate("C19.invalid", format!("validate_attachment accepts an attachment object under the predicate {}", what));
                            }
                        }
                    }
                }
                // every filter combination
                let mut fr = SimRng::new(st.arg(2) ^ 0xf117e5);
                let full = scn.cfg("thorough", 0) == 1;
                for vf in 0..5usize {
                    for cf in 0..6usize {
                        if !full && !fr.chance(1, 3) {
                            continue;
                        }
                        let vendor = if vf < 4 { Some(VENDORS[vf]) } else { None };
                        let conf: Option<&str> = if cf < 5 { CONFORMS[cf].or(Some("https://nobody")) } else { None };
                        let want: BTreeSet<_> = model.iter().filter(|(_, v, c)| vendor.map(|x| x == v).unwrap_or(true) && conf.map(|x| c.as_deref() == Some(x)).unwrap_or(true)).cloned().collect();
                        ctx.checked();
                        match guarded(|| rx.attachments_with_vendor_and_conforms_to(vendor, conf)) {
                            Ok(Ok(list)) => {
                                let got: BTreeSet<_> = list.iter().filter_map(triple).collect();
                                if got != want || list.len() != want.len() {
                                    ctx.violate("C19.filter", format!("filter vendor={:?} conformsTo={:?} returned {} attachments, expected {}", vendor, conf, list.len(), want.len()));
                                }
                            }
                            Ok(Err(e)) => ctx.violate("C19.filter", format!("filtered query failed: {}", e)),
                            Err(p) => ctx.violate_sig("C16.no-panic", format!("attachments_with_vendor_and_conforms_to panicked: {}", p), p),
                        }
                        match guarded(|| rx.attachment_with_vendor_and_conforms_to(vendor, conf)) {
                            Ok(Ok(one)) => {
                                if want.len() != 1 || triple(&one).as_ref() != want.iter().next() {
                                    ctx.violate("C19.single", format!("single-result query returned an attachment although {} match", want.len()));
                                }
                            }
                            Ok(Err(_)) => {
                                if want.len() == 1 {
                                    ctx.violate("C19.single", "single-result query failed although exactly one attachment matches".to_string());
                                }
                                if want.is_empty() {
                                    ctx.probe("single-none");
                                } else if want.len() > 1 {
                                    ctx.probe("single-several");
                                }
                            }
                            Err(p) => ctx.violate_sig("C16.no-panic", format!("attachment_with_vendor_and_conforms_to panicked: {}", p), p),
                        }
                    }
                }
                ctx.t(&format!("A.Attach {} contributions {} distinct", contrib.len(), model.len()));
                ctx.shape_mix(model.len() as u64 * 7 + contrib.len() as u64);
            }
            "A.Types" => {
                // types contributed in any order: known values and arbitrary strings
                let kvs = [known_values::SEED_TYPE, known_values::PRIVATE_KEY_TYPE, known_values::PUBLIC_KEY_TYPE, known_values::MASTER_KEY_TYPE];
                let names = ["Person", "Document", "Seed", ""];
                let mask = st.arg(2) % 256;
                let mut order: Vec<usize> = (0..8).filter(|b| mask & (1 << b) != 0).collect();
                r.shuffle(&mut order);
                if r.chance(1, 3) && !order.is_empty() {
                    let x = order[0];
                    order.push(x);
                    ctx.fault("net.dup");
                }
                let mut e = base.clone();
                for &b in &order {
                    e = if b < 4 { e.add_type(kvs[b].clone()) } else { e.add_type(names[b - 4]) };
                }
                let rx = match transmit(ctx, &e) {
                    Some(x) => x,
                    None => continue,
                };
                ctx.checked();
                for b in 0..8usize {
                    let added = mask & (1 << b) != 0;
                    let (has, chk) = if b < 4 { (rx.has_type(&kvs[b]), rx.check_type(&kvs[b]).is_ok()) } else { (rx.has_type_envelope(names[b - 4]), rx.check_type_envelope(names[b - 4]).is_ok()) };
                    if has != added || chk != added {
                        ctx.violate("C19.types", format!("type #{} added={} but has_type={} check_type ok={}", b, added, has, chk));
                    }
                }
                // a type that is itself an envelope with assertions: reported exactly, and its bare subject is not
                if st.arg(3) % 2 == 0 {
                    let node_type = Envelope::new(names[(st.arg(2) % 2) as usize]).add_assertion("version", (st.arg(2) % 9) as u32);
                    let bare = node_type.subject();
                    let bare_added = mask & (1 << (4 + (st.arg(2) % 2))) != 0;
                    if let Some(rx2) = transmit(ctx, &rx.add_type(node_type.clone())) {
                        ctx.checked();
                        ctx.probe("node-shaped-type");
                        if !rx2.has_type_envelope(node_type.clone()) || rx2.check_type_envelope(node_type.clone()).is_err() {
                            ctx.violate("C19.types", "a type that is an envelope with its own assertions was added but is not reported".to_string());
                        }
                        if rx2.has_type_envelope(bare.clone()) != bare_added {
                            ctx.violate("C19.types", format!("the bare subject of a node-shaped type is reported as a type: {} (it was added: {})", rx2.has_type_envelope(bare.clone()), bare_added));
                        }
                        if rx2.types().len() != mask.count_ones() as usize + 1 {
                            ctx.violate("C19.types", "types() does not count a node-shaped type once".to_string());
                        }
                    }
                }
                // the two forms of the question - by known value and by envelope - are one question: they agree, also
                // after a holder has elided (or otherwise obscured) the object of one 'isA' assertion
                {
                    let added_kv: Vec<usize> = (0..4usize).filter(|b| mask & (1 << b) != 0).collect();
                    let hidden = if let Some(&b) = added_kv.first() {
                        let target = Envelope::new(kvs[b].clone());
                        let act = match st.arg(3) % 3 {
                            0 => ObscureAction::Elide,
                            1 => ObscureAction::Compress,
                            _ => ObscureAction::Encrypt(sym_key(1)),
                        };
                        ctx.probe("type-object-obscured");
                        transmit(ctx, &rx.elide_removing_target_with_action(&target, &act))
                    } else {
                        None
                    };
                    for doc in [Some(rx.clone()), hidden].into_iter().flatten() {
                        for b in 0..4usize {
                            ctx.checked();
                            let (by_value, by_envelope) = (doc.has_type(&kvs[b]), doc.has_type_envelope(kvs[b].clone()));
                            let (cv, ce) = (doc.check_type(&kvs[b]).is_ok(), doc.check_type_envelope(kvs[b].clone()).is_ok());
                            if by_value != by_envelope || cv != ce || by_value != cv {
                                ctx.violate("C19.types", format!("the type checks disagree about known-value type #{}: has_type={} has_type_envelope={} check_type={} check_type_envelope={}", b, by_value, by_envelope, cv, ce));
                            }
                        }
                    }
                }
                // "Seed" the string is not 'Seed' the known value
                let n = mask.count_ones() as usize;
                if rx.types().len() != n {
                    ctx.violate("C19.types", format!("types() returns {} types, {} distinct were added", rx.types().len(), n));
                }
                if rx.get_type().is_ok() != (n == 1) {
                    ctx.violate("C19.types", format!("get_type() ok={} with {} types", rx.get_type().is_ok(), n));
                }
                ctx.t(&format!("A.Types mask {:x}", mask));
                ctx.shape_mix(mask);
            }
            _ => {}
        }
        if ctx.failed() && ctx.stop_at_first {
            break;
        }
    }
}

pub fn generate_attach(property: &str, r: &mut SimRng, seed: u64) -> Scenario {
    let mut scn = hist::generate(property, r, seed);
    scn.family = "attach".to_string();
    let keep = r.range(2, 9) as usize;
    scn.steps.truncate(keep.max(2));
    let n = r.range(1, 3);
    for _ in 0..n {
        let op = *r.pick(&["A.Attach", "A.Attach", "A.Malformed", "A.Types"]);
        scn.push(op, &[ds(r), r.next(), r.next() % 4096, r.below(7)]);
    }
    scn
}

#[allow(dead_code)]
fn _unused(_: &Step, _: &M) {}
