//! C01 "routes" family: one target envelope reached along several different API histories
//! (different parties assembling the same information in different ways). All routes must end
//! with the spec digest at every position and with identical bytes.

use crate::bridge::*;
use crate::core::{Ctx, Scenario};
use crate::cv::hex;
use crate::gen;
use crate::model::*;
use crate::rng::SimRng;
use bc_envelope::prelude::*;

struct Target {
    subject: (Envelope, M),
    assertions: Vec<(Envelope, Envelope, M, M)>, // predicate env, object env, models
    wrap_levels: usize,
}

fn leaf(r: &mut SimRng, dom: u64) -> (Envelope, M) {
    if r.chance(1, 6) {
        let n = r.below(30);
        (Envelope::new(KnownValue::new(n)), M::known(n))
    } else {
        let cv = gen::leaf_cv(r.next() | 8, dom, 0);
        (make_leaf_env(&cv, r.next()), M::leaf(cv))
    }
}

/// a small envelope: leaf, known value, assertion, wrapped node, node
fn small(r: &mut SimRng, dom: u64, depth: u32) -> (Envelope, M) {
    match if depth >= 2 { 0 } else { r.below(6) } {
        0 | 1 | 2 => leaf(r, dom),
        3 => {
            let (e, m) = small(r, dom, depth + 1);
            (e.wrap_envelope(), M::wrapped(m))
        }
        _ => {
            let (se, sm) = leaf(r, dom);
            let (pe, pm) = leaf(r, dom);
            let (oe, om) = small(r, dom, depth + 1);
            (se.add_assertion(pe, oe), M::node(sm, vec![M::assertion(pm, om)]))
        }
    }
}

pub fn run(scn: &Scenario, ctx: &mut Ctx) {
    let dom = scn.cfg("leafdom", gen::DOM_ALL);
    for (i, st) in scn.steps.iter().enumerate() {
        ctx.step = i;
        ctx.sim_ticks += 1;
        if st.op != "RouteCheck" {
            continue;
        }
        ctx.executed += 1;
        let mut r = SimRng::new(st.arg(0));
        let k = r.range(1, 6) as usize;
        let mut t = Target { subject: small(&mut r, dom, 0), assertions: vec![], wrap_levels: r.below(3) as usize };
        for _ in 0..k {
            let (pe, pm) = small(&mut r, dom, 1);
            let (oe, om) = small(&mut r, dom, 0);
            t.assertions.push((pe, oe, pm, om));
        }
        // the model's target
        let mut mm = t.subject.1.clone();
        for (_, _, pm, om) in &t.assertions {
            mm = mm.add_assertion_m(&M::assertion(pm.clone(), om.clone()));
        }
        for _ in 0..t.wrap_levels {
            mm = M::wrapped(mm);
        }
        let model_bytes = match mm.tagged_bytes() {
            Some(b) => b,
            None => continue,
        };
        let nroutes = r.range(2, 5);
        let key = sym_key((r.below(4)) as u32);
        for route in 0..nroutes {
            let style = r.below(8);
            let built = guarded(|| -> Envelope {
                let subj = t.subject.0.clone();
                let n = t.assertions.len();
                let mut order: Vec<usize> = (0..n).collect();
                let mut e;
                match style {
                    0 => {
                        // straightforward
                        e = subj;
                        for ix in order {
                            e = e.add_assertion(t.assertions[ix].0.clone(), t.assertions[ix].1.clone());
                        }
                    }
                    1 => {
                        // shuffled with repeats
                        r.shuffle(&mut order);
                        let extra = order[0];
                        order.push(extra);
                        e = subj;
                        for ix in order {
                            e = e.add_assertion_envelope(Envelope::new_assertion(t.assertions[ix].0.clone(), t.assertions[ix].1.clone())).unwrap();
                        }
                    }
                    2 => {
                        // a superset, then the extras removed
                        e = subj;
                        let x1 = Envelope::new_assertion("extra-1", 1);
                        let x2 = Envelope::new_assertion("extra-2", Envelope::new("x").add_assertion("y", "z"));
                        e = e.add_assertion_envelope(x1.clone()).unwrap();
                        for ix in order {
                            e = e.add_assertion(t.assertions[ix].0.clone(), t.assertions[ix].1.clone());
                        }
                        e = e.add_assertion_envelope(x2.clone()).unwrap();
                        e = e.remove_assertion(x1).remove_assertion(x2);
                    }
                    3 => {
                        // built on another subject, then the subject replaced
                        e = Envelope::new("placeholder subject");
                        r.shuffle(&mut order);
                        for ix in order {
                            e = e.add_assertion(t.assertions[ix].0.clone(), t.assertions[ix].1.clone());
                        }
                        e = e.replace_subject(subj);
                    }
                    4 => {
                        // wrap/unwrap and encode/decode detours between steps
                        e = subj;
                        for ix in order {
                            e = e.wrap_envelope().unwrap_envelope().unwrap();
                            e = e.add_assertion(t.assertions[ix].0.clone(), t.assertions[ix].1.clone());
                            e = Envelope::try_from_cbor_data(e.to_cbor_data()).unwrap();
                        }
                    }
                    5 => {
                        // encrypt/decrypt and compress/uncompress detours on intermediates
                        e = subj;
                        for ix in order {
                            e = e.add_assertion(t.assertions[ix].0.clone(), t.assertions[ix].1.clone());
                            e = e.encrypt_subject(&key).unwrap().decrypt_subject(&key).unwrap();
                            e = e.compress().unwrap().uncompress().unwrap();
                        }
                    }
                    6 => {
                        // elide pieces, send, un-elide from the original at the receiver
                        e = subj;
                        for ix in order {
                            e = e.add_assertion(t.assertions[ix].0.clone(), t.assertions[ix].1.clone());
                        }
                        let placeholder = e.elide();
                        e = placeholder.unelide(e.clone()).unwrap();
                    }
                    _ => {
                        // assertion by assertion through UR strings between two parties
                        e = subj;
                        for ix in order {
                            e = e.add_assertion(t.assertions[ix].0.clone(), t.assertions[ix].1.clone());
                            e = Envelope::from_ur_string(e.ur_string()).unwrap();
                        }
                    }
                }
                for _ in 0..t.wrap_levels {
                    e = e.wrap_envelope();
                }
                e
            });
            let e = match built {
                Ok(e) => e,
                Err(p) => {
                    ctx.violate_sig("C16.no-panic", format!("route style {} panicked: {}", style, p), p.clone());
                    ctx.checked();
                    ctx.violate("C01.route-completes", format!("assembling the target along route style {} failed: {}", style, p));
                    continue;
                }
            };
            ctx.checked();
            if let Err(x) = compare_env(&e, &mm, "") {
                ctx.violate("C01.digest-at-position", format!("route style {}: {}", style, x));
            }
            let b = e.to_cbor_data();
            if b != model_bytes {
                ctx.violate("C01.route-bytes", format!("route style {} ends with encoding {} but the spec encoding of the target is {}", style, hex(&b[..b.len().min(60)]), hex(&model_bytes[..model_bytes.len().min(60)])));
            }
            ctx.probe(match style {
                0 => "route-plain",
                1 => "route-shuffled-repeats",
                2 => "route-superset-remove",
                3 => "route-replace-subject",
                4 => "route-wrap-decode-detours",
                5 => "route-crypto-compress-detours",
                6 => "route-elide-unelide",
                _ => "route-ur-hops",
            });
            ctx.t(&format!("route {} style {} -> {}", route, style, dhex(&digest_of(&e))));
            if ctx.failed() {
                break;
            }
        }
        ctx.shape_mix(mm.shape_hash());
        if ctx.failed() && ctx.stop_at_first {
            break;
        }
    }
}

pub fn generate(property: &str, r: &mut SimRng, seed: u64) -> Scenario {
    let mut scn = Scenario::new(property, "routes", seed);
    let dom = if r.chance(1, 3) { gen::DOM_ALL } else { (r.next() & gen::DOM_ALL) | 1 };
    scn.cfg.insert("leafdom".into(), dom);
    let n = r.range(1, 3);
    for _ in 0..n {
        scn.push("RouteCheck", &[r.next()]);
    }
    scn
}
