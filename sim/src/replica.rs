//! C07 replica family: k replicas start from the same subject; every assertion is a
//! contribution broadcast to all; the network gives each replica its own delivery order and
//! repetition (net.delay, net.dup). Also: the same unordered collection built in different
//! insertion orders (hasher randomness) used as subject, predicate or object.

use crate::bridge::*;
use crate::core::{Ctx, Scenario};
use crate::cv::{hex, CV};
use crate::gen;
use crate::hist::{self, StepResult, World};
use crate::model::*;
use crate::rng::SimRng;
use bc_envelope::prelude::*;
use std::collections::{HashMap, HashSet};

fn permutations(n: usize) -> Vec<Vec<usize>> {
    fn rec(cur: &mut Vec<usize>, used: &mut Vec<bool>, n: usize, out: &mut Vec<Vec<usize>>) {
        if cur.len() == n {
            out.push(cur.clone());
            return;
        }
        for i in 0..n {
            if !used[i] {
                used[i] = true;
                cur.push(i);
                rec(cur, used, n, out);
                cur.pop();
                used[i] = false;
            }
        }
    }
    let mut out = vec![];
    rec(&mut vec![], &mut vec![false; n], n, &mut out);
    out
}

pub fn run(scn: &Scenario, ctx: &mut Ctx) {
    let thorough = scn.cfg("thorough", 0) == 1;
    let mut w = World::new(scn.cfg("leafdom", gen::DOM_ALL));
    for (i, st) in scn.steps.iter().enumerate() {
        ctx.step = i;
        ctx.sim_ticks += 1;
        let op = st.op.as_str();
        if !op.starts_with("Q.") {
            if !matches!(hist::exec_step(&mut w, ctx, st), StepResult::Skipped) {
                ctx.executed += 1;
            }
            continue;
        }
        ctx.executed += 1;
        match op {
            "Q.Replicas" | "Q.AllPerms" => {
                let d = match w.idx(st.arg(0)) {
                    Some(d) => d,
                    None => continue,
                };
                let subject = w.docs[d].env.clone();
                let sm = w.docs[d].m.clone();
                let independent = w.docs[d].independent;
                let mut r = SimRng::new(st.arg(1));
                let k = if op == "Q.AllPerms" { r.range(2, 5) as usize } else { r.range(1, 7) as usize };
                // contributions: assertion envelopes (predicate, object) built from leaves or existing documents
                let mut contrib: Vec<(Envelope, M)> = vec![];
                for _ in 0..k {
                    let (pe, pm) = if r.chance(1, 4) && !w.docs.is_empty() {
                        let x = w.idx(r.below(8)).unwrap();
                        (w.docs[x].env.clone(), w.docs[x].m.clone())
                    } else {
                        let cv = gen::leaf_cv(r.next() | 8, w.dom, 0);
                        (make_leaf_env(&cv, r.next()), M::leaf(cv))
                    };
                    let (oe, om) = if r.chance(1, 4) && !w.docs.is_empty() {
                        let x = w.idx(r.below(8)).unwrap();
                        (w.docs[x].env.clone(), w.docs[x].m.clone())
                    } else {
                        let cv = gen::leaf_cv(r.next() | 8, w.dom, 0);
                        (make_leaf_env(&cv, r.next()), M::leaf(cv))
                    };
                    let ae = Envelope::new_assertion(pe, oe);
                    // "the same set of assertions": two contributions with equal digests but different
                    // obscuration patterns are different envelopes (first one wins, by design) - not generated
                    if contrib.iter().any(|(x, _)| digest_of(x) == digest_of(&ae) && x.to_cbor_data() != ae.to_cbor_data()) {
                        continue;
                    }
                    contrib.push((ae, M::assertion(pm, om)));
                }
                // the model's envelope: same set, whatever the order
                let mut mm = sm.clone();
                for (_, am) in &contrib {
                    mm = mm.add_assertion_m(am);
                }
                let model_bytes = if independent { mm.tagged_bytes() } else { None };
                let k = contrib.len();
                if k == 0 {
                    continue;
                }
                // the subject's own assertions must not clash (by digest, with different bytes) either
                if subject.assertions().iter().any(|a| contrib.iter().any(|(x, _)| digest_of(x) == digest_of(a) && x.to_cbor_data() != a.to_cbor_data())) {
                    continue;
                }
                let orders: Vec<Vec<usize>> = if op == "Q.AllPerms" {
                    ctx.probe("all-permutations-enumerated");
                    let mut v = permutations(k);
                    // every single duplication of the identity order
                    for dup in 0..k {
                        for pos in 0..=k {
                            let mut o: Vec<usize> = (0..k).collect();
                            o.insert(pos, dup);
                            v.push(o);
                        }
                    }
                    v
                } else {
                    // each replica's delivery order: delays reorder, duplication repeats
                    let nrep = r.range(2, 5) as usize;
                    (0..nrep)
                        .map(|_| {
                            let mut o: Vec<usize> = (0..k).collect();
                            r.shuffle(&mut o);
                            ctx.fault("net.delay");
                            while r.chance(1, 3) {
                                let x = o[r.below(o.len() as u64) as usize];
                                let pos = r.below(o.len() as u64 + 1) as usize;
                                o.insert(pos, x);
                                ctx.fault("net.dup");
                                ctx.probe("duplicate-delivered");
                            }
                            o
                        })
                        .collect()
                };
                if orders.len() >= 3 {
                    ctx.probe("three-or-more-distinct-orders");
                }
                let mut first: Option<Vec<u8>> = None;
                for o in &orders {
                    let mut e = subject.clone();
                    let mut failed = false;
                    // every third delivery order is applied through the batch entry points instead of one by one
                    let batch_mode = (o.len() + o.iter().sum::<usize>()) % 3;
                    if batch_mode != 0 {
                        let list: Vec<Envelope> = o.iter().map(|&ix| contrib[ix].0.clone()).collect();
                        ctx.probe("batch-add-entry-point");
                        let r = if batch_mode == 1 { guarded(|| e.add_assertion_envelopes(&list)) } else { guarded(|| Ok(e.add_assertions(&list))) };
                        match r {
                            Ok(Ok(x)) => e = x,
                            Ok(Err(_)) => {
                                ctx.violate("C07.add-refused", "add_assertion_envelopes refused a list of assertions".to_string());
                                failed = true;
                            }
                            Err(p) => {
                                ctx.violate_sig("C16.no-panic", format!("batch add panicked: {}", p), p);
                                failed = true;
                            }
                        }
                    }
                    for &ix in o {
                        if batch_mode != 0 {
                            break;
                        }
                        match guarded(|| e.add_assertion_envelope(contrib[ix].0.clone())) {
                            Ok(Ok(x)) => e = x,
                            Ok(Err(_)) => {
                                ctx.violate("C07.add-refused", "add_assertion_envelope refused an assertion".to_string());
                                failed = true;
                                break;
                            }
                            Err(p) => {
                                ctx.violate_sig("C16.no-panic", format!("add_assertion_envelope panicked: {}", p), p);
                                failed = true;
                                break;
                            }
                        }
                    }
                    if failed {
                        break;
                    }
                    let b = e.to_cbor_data();
                    ctx.checked();
                    match &first {
                        None => {
                            if let Some(mb) = &model_bytes {
                                if mb != &b {
                                    ctx.violate("C07.model-bytes", format!("replica encoding {} differs from the spec encoding {}", hex(&b[..b.len().min(60)]), hex(&mb[..mb.len().min(60)])));
                                }
                            }
                            first = Some(b);
                        }
                        Some(f) => {
                            if f != &b {
                                ctx.violate("C07.replicas-identical", format!("two replicas that received the same assertions in different orders ({:?}) are not byte-identical", o));
                            }
                        }
                    }
                    if ctx.failed() {
                        break;
                    }
                }
                // the subject document was not altered
                if subject.to_cbor_data() != w.docs[d].bytes {
                    ctx.violate("C07.immutable", "building replicas altered the shared subject document".to_string());
                }
                ctx.t(&format!("{} k={} orders={}", op, k, orders.len()));
                ctx.shape_mix(mm.shape_hash());
            }
            "Q.Collection" => {
                // the same unordered collection built in different insertion orders and capacities
                let mut r = SimRng::new(st.arg(1));
                let n = if thorough { r.range(2, 12) } else { r.range(2, 8) } as usize;
                if n >= 4 {
                    ctx.probe("collection-with-4-or-more-elements");
                }
                let kind = st.arg(2) % 6;
                let mut elems: Vec<u64> = vec![];
                while elems.len() < n {
                    let x = r.below(1000);
                    if !elems.contains(&x) {
                        elems.push(x);
                    }
                }
                let role = st.arg(3) % 3;
                let build = |order: &[u64], cap: usize| -> Envelope {
                    let coll: Envelope = match kind {
                        0 => {
                            let mut s: HashSet<u64> = HashSet::with_capacity(cap);
                            for x in order {
                                s.insert(*x);
                            }
                            Envelope::new(s)
                        }
                        1 => {
                            let mut s: HashSet<String> = HashSet::with_capacity(cap);
                            for x in order {
                                s.insert(format!("e{}", x));
                            }
                            Envelope::new(s)
                        }
                        2 => {
                            let mut m: HashMap<u64, String> = HashMap::with_capacity(cap);
                            for x in order {
                                m.insert(*x, format!("v{}", x));
                            }
                            Envelope::new(m)
                        }
                        3 => {
                            let mut m: HashMap<String, u64> = HashMap::with_capacity(cap);
                            for x in order {
                                m.insert(format!("k{}", x), *x);
                            }
                            Envelope::new(m)
                        }
                        4 => {
                            let mut m = dcbor::Map::new();
                            for x in order {
                                m.insert(*x, format!("v{}", x));
                            }
                            Envelope::new(m)
                        }
                        _ => {
                            let mut s = dcbor::Set::new();
                            for x in order {
                                s.insert(*x);
                            }
                            Envelope::new(s)
                        }
                    };
                    match role {
                        0 => coll,
                        1 => Envelope::new("subject").add_assertion(coll, 1),
                        _ => Envelope::new("subject").add_assertion("has", coll),
                    }
                };
                // model encoding of the collection leaf
                let cv = match kind {
                    0 | 5 => {
                        let mut v: Vec<CV> = elems.iter().map(|x| CV::U(*x)).collect();
                        v.sort_by(|a, b| a.encode().cmp(&b.encode()));
                        CV::A(v)
                    }
                    1 => {
                        let mut v: Vec<CV> = elems.iter().map(|x| CV::T(format!("e{}", x))).collect();
                        v.sort_by(|a, b| a.encode().cmp(&b.encode()));
                        CV::A(v)
                    }
                    2 | 4 => CV::map(elems.iter().map(|x| (CV::U(*x), CV::T(format!("v{}", x)))).collect()),
                    _ => CV::map(elems.iter().map(|x| (CV::T(format!("k{}", x)), CV::U(*x))).collect()),
                };
                let leaf = M::leaf(cv);
                let mm = match role {
                    0 => leaf,
                    1 => M::node(M::leaf(CV::text("subject")), vec![M::assertion(leaf, M::leaf(CV::U(1)))]),
                    _ => M::node(M::leaf(CV::text("subject")), vec![M::assertion(M::leaf(CV::text("has")), leaf)]),
                };
                let model_bytes = mm.tagged_bytes().unwrap();
                let tries = if thorough { 12 } else { 5 };
                for t in 0..tries {
                    let mut o = elems.clone();
                    r.shuffle(&mut o);
                    ctx.fault("hasher.order");
                    let e = match guarded(|| build(&o, if t % 2 == 0 { 0 } else { 64 + t * 10 })) {
                        Ok(e) => e,
                        Err(p) => {
                            ctx.violate_sig("C16.no-panic", format!("building a collection envelope panicked: {}", p), p);
                            break;
                        }
                    };
                    let b = e.to_cbor_data();
                    ctx.checked();
                    if b != model_bytes {
                        ctx.violate("C07.collections", format!("an unordered collection (kind {}, {} elements, role {}) encodes to {} but equal collections must encode to {}", kind, n, role, hex(&b[..b.len().min(60)]), hex(&model_bytes[..model_bytes.len().min(60)])));
                        break;
                    }
                    if digest_of(&e) != mm.digest() {
                        ctx.violate("C07.collections", "an unordered collection's envelope digest differs from the spec digest".to_string());
                        break;
                    }
                }
                // NOTE: nothing that depends on hash order is written to the trace
                ctx.t(&format!("Q.Collection kind={} n={} role={}", kind, n, role));
                ctx.shape_mix(kind * 16 + n as u64);
            }
            _ => {}
        }
        if ctx.failed() && ctx.stop_at_first {
            break;
        }
    }
}

pub fn generate(property: &str, r: &mut SimRng, seed: u64) -> Scenario {
    let mut scn = hist::generate(property, r, seed);
    scn.family = "replica".to_string();
    let keep = r.range(2, 9) as usize;
    scn.steps.truncate(keep.max(2));
    let n = r.range(1, 3);
    for _ in 0..n {
        let d = if r.chance(2, 3) { r.below(3) } else { r.below(12) };
        match r.below(6) {
            0..=2 => scn.push("Q.Replicas", &[d, r.next()]),
            3 => scn.push("Q.AllPerms", &[d, r.next()]),
            _ => scn.push("Q.Collection", &[d, r.next(), r.below(6), r.below(3)]),
        }
    }
    scn
}
