//! Reference model of a Gordian Envelope, written from the IETF draft (§4 digest rules,
//! §3 grammar) with the `sha2` crate only. Shares nothing with /repo/src.
//!
//! `M` is a persistent tree. Every position carries an obscuration overlay: a position that
//! is elided / encrypted / compressed keeps (when the model knows it) the content that is
//! hidden there, and always keeps the digest of that content.

use crate::cv::{Body, Item, CV};
use sha2::{Digest as _, Sha256};
use std::collections::BTreeSet;
use std::rc::Rc;

pub type D = [u8; 32];

pub fn sha(data: &[u8]) -> D {
    let mut h = Sha256::new();
    h.update(data);
    h.finalize().into()
}

pub fn sha_cat(parts: &[D]) -> D {
    let mut h = Sha256::new();
    for p in parts {
        h.update(p);
    }
    h.finalize().into()
}

pub const TAG_ENVELOPE: u64 = 200;
pub const TAG_LEAF: u64 = 201;
pub const TAG_LEGACY_LEAF: u64 = 24;
pub const TAG_KNOWN_VALUE: u64 = 40000;
pub const TAG_DIGEST: u64 = 40001;
pub const TAG_ENCRYPTED: u64 = 40002;
pub const TAG_COMPRESSED: u64 = 40003;

#[derive(Clone, Copy, Debug, PartialEq, Eq, Hash, PartialOrd, Ord)]
pub enum Obsc {
    Clear,
    Elided,
    /// encrypted with the key of this id (u32::MAX = key unknown to the model)
    Encrypted(u32),
    Compressed,
    /// obscured, exact form not fixed by any property (e.g. an already obscured element
    /// that was targeted again with another action)
    Some,
}

impl Obsc {
    pub fn is_clear(&self) -> bool {
        matches!(self, Obsc::Clear)
    }
    pub fn code(&self) -> u8 {
        match self {
            Obsc::Clear => 0,
            Obsc::Elided => 1,
            Obsc::Encrypted(_) => 2,
            Obsc::Compressed => 3,
            Obsc::Some => 4,
        }
    }
}

#[derive(Clone, Debug)]
pub enum MKind {
    Leaf(CV),
    Known(u64),
    Wrapped(M),
    Assertion(M, M),
    Node { subject: M, assertions: Vec<M> },
    /// content the model never saw (only ever under a non-Clear overlay)
    Unknown,
    /// the hidden content is itself an obscured element (e.g. a compressed element that was
    /// then encrypted); only ever under a non-Clear overlay
    Layer(M),
}

#[derive(Debug)]
pub struct MInner {
    pub kind: MKind,
    pub obsc: Obsc,
    pub digest: D,
}

#[derive(Clone, Debug)]
pub struct M(pub Rc<MInner>);

impl M {
    fn mk(kind: MKind, obsc: Obsc, digest: D) -> M {
        M(Rc::new(MInner { kind, obsc, digest }))
    }
    pub fn kind(&self) -> &MKind {
        &self.0.kind
    }
    pub fn obsc(&self) -> Obsc {
        self.0.obsc
    }
    pub fn digest(&self) -> D {
        self.0.digest
    }

    // ---- constructors: the draft's §4 ----
    pub fn leaf(cv: CV) -> M {
        let d = sha(&cv.encode());
        M::mk(MKind::Leaf(cv), Obsc::Clear, d)
    }
    pub fn known(n: u64) -> M {
        let d = sha(&CV::tag(TAG_KNOWN_VALUE, CV::U(n)).encode());
        M::mk(MKind::Known(n), Obsc::Clear, d)
    }
    pub fn wrapped(inner: M) -> M {
        let d = sha_cat(&[inner.digest()]);
        M::mk(MKind::Wrapped(inner), Obsc::Clear, d)
    }
    pub fn assertion(p: M, o: M) -> M {
        let d = sha_cat(&[p.digest(), o.digest()]);
        M::mk(MKind::Assertion(p, o), Obsc::Clear, d)
    }
    /// node: assertions sorted ascending by digest, duplicates (by digest) dropped keeping
    /// the first occurrence; the caller guarantees `assertions` is non-empty
    pub fn node(subject: M, assertions: Vec<M>) -> M {
        let mut a: Vec<M> = Vec::new();
        for x in assertions {
            if !a.iter().any(|y| y.digest() == x.digest()) {
                a.push(x);
            }
        }
        a.sort_by(|x, y| x.digest().cmp(&y.digest()));
        let mut parts = vec![subject.digest()];
        parts.extend(a.iter().map(|x| x.digest()));
        let d = sha_cat(&parts);
        M::mk(MKind::Node { subject, assertions: a }, Obsc::Clear, d)
    }
    pub fn unknown(obsc: Obsc, digest: D) -> M {
        M::mk(MKind::Unknown, obsc, digest)
    }
    /// same content and digest, different overlay
    pub fn with_obsc(&self, obsc: Obsc) -> M {
        M::mk(self.0.kind.clone(), obsc, self.0.digest)
    }
    /// hide an element under a further overlay, remembering the overlay it already has
    pub fn hide_under(&self, obsc: Obsc) -> M {
        if self.obsc().is_clear() {
            self.with_obsc(obsc)
        } else {
            M::mk(MKind::Layer(self.clone()), obsc, self.0.digest)
        }
    }
    /// remove the outermost overlay; None if the model does not know what is underneath
    pub fn reveal(&self) -> Option<M> {
        match self.kind() {
            MKind::Unknown => None,
            MKind::Layer(inner) => Some(inner.clone()),
            _ => Some(self.with_obsc(Obsc::Clear)),
        }
    }

    // ---- observers ----
    pub fn is_node(&self) -> bool {
        self.obsc().is_clear() && matches!(self.kind(), MKind::Node { .. })
    }
    pub fn subject(&self) -> M {
        match (self.obsc(), self.kind()) {
            (Obsc::Clear, MKind::Node { subject, .. }) => subject.clone(),
            _ => self.clone(),
        }
    }
    pub fn assertions(&self) -> Vec<M> {
        match (self.obsc(), self.kind()) {
            (Obsc::Clear, MKind::Node { assertions, .. }) => assertions.clone(),
            _ => vec![],
        }
    }
    pub fn is_obscured(&self) -> bool {
        !self.obsc().is_clear()
    }
    /// the library's `is_subject_assertion`: an assertion, or a node whose subject (recursively) is one
    pub fn is_subject_assertion(&self) -> bool {
        if !self.obsc().is_clear() {
            return false;
        }
        match self.kind() {
            MKind::Assertion(..) => true,
            MKind::Node { subject, .. } => subject.is_subject_assertion(),
            _ => false,
        }
    }
    pub fn is_subject_obscured(&self) -> bool {
        if !self.obsc().is_clear() {
            return true;
        }
        match self.kind() {
            MKind::Node { subject, .. } => subject.is_subject_obscured(),
            _ => false,
        }
    }
    /// may legally sit in an assertion slot of a node
    pub fn assertion_slot_ok(&self) -> bool {
        self.is_subject_assertion() || self.is_subject_obscured()
    }

    /// children visible through the overlay, in the library's walk order
    pub fn children(&self) -> Vec<M> {
        if !self.obsc().is_clear() {
            return vec![];
        }
        match self.kind() {
            MKind::Node { subject, assertions } => {
                let mut v = vec![subject.clone()];
                v.extend(assertions.iter().cloned());
                v
            }
            MKind::Wrapped(i) => vec![i.clone()],
            MKind::Assertion(p, o) => vec![p.clone(), o.clone()],
            _ => vec![],
        }
    }
    /// every visible position in pre-order (self first)
    pub fn positions(&self) -> Vec<M> {
        let mut out = vec![];
        fn rec(m: &M, out: &mut Vec<M>) {
            out.push(m.clone());
            for c in m.children() {
                rec(&c, out);
            }
        }
        rec(self, &mut out);
        out
    }
    pub fn count(&self) -> usize {
        1 + self.children().iter().map(|c| c.count()).sum::<usize>()
    }
    pub fn depth(&self) -> usize {
        1 + self.children().iter().map(|c| c.depth()).max().unwrap_or(0)
    }
    /// set of digests of all visible positions
    pub fn digest_set(&self) -> BTreeSet<D> {
        self.positions().iter().map(|m| m.digest()).collect()
    }
    /// sorted, de-duplicated list of the digests of visible positions (stable addressing for target selection)
    pub fn digest_list(&self) -> Vec<D> {
        self.digest_set().into_iter().collect()
    }
    pub fn has_obscured(&self) -> bool {
        self.positions().iter().any(|m| m.is_obscured())
    }
    /// all positions are Clear or Elided, so the exact encoding is predictable by the model
    pub fn bytes_predictable(&self) -> bool {
        self.positions().iter().all(|m| matches!(m.obsc(), Obsc::Clear | Obsc::Elided))
    }

    /// A structural fingerprint: case and overlay at every visible position (no content).
    pub fn shape_hash(&self) -> u64 {
        fn rec(m: &M, h: &mut u64) {
            let code: u64 = match (m.obsc(), m.kind()) {
                (Obsc::Clear, MKind::Leaf(_)) => 1,
                (Obsc::Clear, MKind::Known(_)) => 2,
                (Obsc::Clear, MKind::Wrapped(_)) => 3,
                (Obsc::Clear, MKind::Assertion(..)) => 4,
                (Obsc::Clear, MKind::Node { assertions, .. }) => 5 + 16 * assertions.len() as u64,
                (Obsc::Clear, MKind::Unknown) => 6,
                (o, _) => 7 + o.code() as u64,
            };
            *h = (*h ^ code).wrapping_mul(0x100000001b3).rotate_left(5);
            for c in m.children() {
                rec(&c, h);
            }
            *h = (*h ^ 0xff).wrapping_mul(0x100000001b3);
        }
        let mut h = 0xcbf29ce484222325u64;
        rec(self, &mut h);
        h
    }

    // ---- encoding (draft §3): only for trees whose bytes are predictable ----
    pub fn untagged_cv(&self) -> Option<CV> {
        match self.obsc() {
            Obsc::Elided => return Some(CV::B(self.digest().to_vec())),
            Obsc::Clear => {}
            _ => return None,
        }
        Some(match self.kind() {
            MKind::Leaf(cv) => CV::tag(TAG_LEAF, cv.clone()),
            MKind::Known(n) => CV::U(*n),
            MKind::Wrapped(i) => CV::tag(TAG_ENVELOPE, i.untagged_cv()?),
            MKind::Assertion(p, o) => CV::M(vec![(p.untagged_cv()?, o.untagged_cv()?)]),
            MKind::Node { subject, assertions } => {
                let mut v = vec![subject.untagged_cv()?];
                for a in assertions {
                    v.push(a.untagged_cv()?);
                }
                CV::A(v)
            }
            MKind::Unknown | MKind::Layer(_) => return None,
        })
    }
    pub fn tagged_bytes(&self) -> Option<Vec<u8>> {
        Some(CV::tag(TAG_ENVELOPE, self.untagged_cv()?).encode())
    }

    // ---- model operations (semantics fixed by the property statements only) ----

    /// add an assertion-slot element; duplicate digest ⇒ unchanged
    pub fn add_assertion_m(&self, a: &M) -> M {
        if self.is_node() {
            if self.assertions().iter().any(|x| x.digest() == a.digest()) {
                return self.clone();
            }
            let mut v = self.assertions();
            v.push(a.clone());
            M::node(self.subject(), v)
        } else {
            M::node(self.clone(), vec![a.clone()])
        }
    }
    /// remove the assertion with this digest; last one ⇒ bare subject; absent ⇒ unchanged
    pub fn remove_assertion_m(&self, d: &D) -> M {
        if !self.is_node() {
            return self.clone();
        }
        let v: Vec<M> = self.assertions();
        if !v.iter().any(|x| x.digest() == *d) {
            return self.clone();
        }
        let rest: Vec<M> = v.into_iter().filter(|x| x.digest() != *d).collect();
        if rest.is_empty() {
            self.subject()
        } else {
            M::node(self.subject(), rest)
        }
    }
    /// the same assertions around another subject element *without* merging: the subject
    /// position is replaced as it is (a node stays a node-subject). This is what decrypting,
    /// encrypting, compressing or uncompressing the subject must do — the subject's digest is
    /// unchanged, hence so is the envelope's.
    pub fn with_subject(&self, s: &M) -> M {
        if self.is_node() {
            M::node(s.clone(), self.assertions())
        } else {
            s.clone()
        }
    }
    /// re-attach this envelope's assertions to another subject.
    /// Library semantics: fold(add_assertion_envelope) starting from `s` (which may itself be a node).
    pub fn replace_subject_m(&self, s: &M) -> M {
        let mut e = s.clone();
        for a in self.assertions() {
            e = e.add_assertion_m(&a);
        }
        e
    }

    /// Target-set obscuring (draft §"Elision"; property C03's visibility rule).
    /// `hide(m)` decides the overlay for a newly hidden, currently clear element;
    /// an element that is hidden while already obscured becomes `Obsc::Some` unless the
    /// action is plain elision of an elided element (stays elided) — the properties only
    /// fix "stays obscured, same digest".
    pub fn obscure_set(&self, targets: &BTreeSet<D>, revealing: bool, action: Obsc) -> M {
        let hit = targets.contains(&self.digest());
        if hit != revealing {
            // this element is hidden
            return match (self.obsc(), action) {
                (Obsc::Clear, a) => self.with_obsc(a),
                (Obsc::Elided, Obsc::Elided) => self.clone(),
                // Elide action on encrypted/compressed element: becomes elided (only digest can remain)
                (_, Obsc::Elided) => self.with_obsc(Obsc::Elided),
                (Obsc::Compressed, Obsc::Compressed) => self.clone(),
                // Encrypt action on a compressed element: compression is not concealment, so the content
                // must end up as ciphertext
                (Obsc::Compressed, Obsc::Encrypted(k)) => self.hide_under(Obsc::Encrypted(k)),
                // on an element that is already elided or encrypted nothing is left to conceal: the
                // properties only fix "stays obscured, same digest"
                _ => self.with_obsc(Obsc::Some),
            };
        }
        if !self.obsc().is_clear() {
            return self.clone();
        }
        match self.kind() {
            MKind::Assertion(p, o) => {
                let p2 = p.obscure_set(targets, revealing, action);
                let o2 = o.obscure_set(targets, revealing, action);
                M::mk(MKind::Assertion(p2, o2), Obsc::Clear, self.digest())
            }
            MKind::Node { subject, assertions } => {
                let s2 = subject.obscure_set(targets, revealing, action);
                let a2: Vec<M> = assertions.iter().map(|a| a.obscure_set(targets, revealing, action)).collect();
                M::mk(MKind::Node { subject: s2, assertions: a2 }, Obsc::Clear, self.digest())
            }
            MKind::Wrapped(i) => {
                let i2 = i.obscure_set(targets, revealing, action);
                M::mk(MKind::Wrapped(i2), Obsc::Clear, self.digest())
            }
            _ => self.clone(),
        }
    }

    /// Structural identity (case + overlay + digest at every visible position).
    /// `Obsc::Some` matches any non-clear overlay; encrypted key ids are ignored.
    pub fn same_structure(&self, other: &M) -> bool {
        if self.digest() != other.digest() {
            return false;
        }
        let oa = self.obsc();
        let ob = other.obsc();
        let ok = match (oa, ob) {
            (Obsc::Clear, Obsc::Clear) => true,
            (Obsc::Clear, _) | (_, Obsc::Clear) => false,
            (Obsc::Some, _) | (_, Obsc::Some) => true,
            (a, b) => a.code() == b.code(),
        };
        if !ok {
            return false;
        }
        if !oa.is_clear() {
            return true;
        }
        let ca = self.children();
        let cb = other.children();
        if ca.len() != cb.len() {
            return false;
        }
        let kind_ok = match (self.kind(), other.kind()) {
            (MKind::Leaf(a), MKind::Leaf(b)) => a == b,
            (MKind::Known(a), MKind::Known(b)) => a == b,
            (MKind::Wrapped(_), MKind::Wrapped(_)) => true,
            (MKind::Assertion(..), MKind::Assertion(..)) => true,
            (MKind::Node { .. }, MKind::Node { .. }) => true,
            _ => false,
        };
        kind_ok && ca.iter().zip(cb.iter()).all(|(a, b)| a.same_structure(b))
    }
}

// ------------------------------------------------------------------------------------------
// Recogniser: bytes -> model tree, validating the envelope grammar of the draft (§3) and
// recomputing every digest (§4). Only trusted on library output and on mutations whose
// effect the simulator knows by construction.

#[derive(Debug, Clone, PartialEq, Eq)]
pub enum RecErr {
    Cbor(String),
    NotDeterministic,
    NotEnvelopeTag,
    NodeArity,
    NodeOrder,
    NodeDuplicate,
    AssertionSlot,
    DigestLength,
    AssertionMapArity,
    UnknownTag(u64),
    BadEncrypted(&'static str),
    BadCompressed(&'static str),
    InvalidCase,
    TooDeep,
}

pub struct Recognised {
    pub m: M,
    /// the leaf tag 24 alias was seen (tolerated on input)
    pub legacy_leaf: bool,
}

pub fn recognise(data: &[u8]) -> Result<Recognised, RecErr> {
    let item = Item::decode(data).map_err(|e| RecErr::Cbor(format!("{:?}", e)))?;
    recognise_item(&item)
}

pub fn recognise_item(item: &Item) -> Result<Recognised, RecErr> {
    if !item.is_deterministic() {
        return Err(RecErr::NotDeterministic);
    }
    if !item.is_tag(TAG_ENVELOPE) {
        return Err(RecErr::NotEnvelopeTag);
    }
    let mut legacy = false;
    let m = rec_untagged(&item.items()[0], &mut legacy, 0)?;
    Ok(Recognised { m, legacy_leaf: legacy })
}

fn digest_from_tagged(item: &Item) -> Option<D> {
    if !item.is_tag(TAG_DIGEST) {
        return None;
    }
    let inner = &item.items()[0];
    if inner.major != 2 {
        return None;
    }
    match &inner.body {
        Body::Bytes(b) if b.len() == 32 => {
            let mut d = [0u8; 32];
            d.copy_from_slice(b);
            Some(d)
        }
        _ => None,
    }
}

fn rec_untagged(item: &Item, legacy: &mut bool, depth: usize) -> Result<M, RecErr> {
    if depth > 200 {
        return Err(RecErr::TooDeep);
    }
    match item.major {
        6 => match item.arg {
            TAG_LEAF | TAG_LEGACY_LEAF => {
                if item.arg == TAG_LEGACY_LEAF {
                    *legacy = true;
                }
                let cv = item.items()[0].to_cv().ok_or(RecErr::InvalidCase)?;
                Ok(M::leaf(cv))
            }
            TAG_ENVELOPE => {
                let inner = rec_untagged(&item.items()[0], legacy, depth + 1)?;
                Ok(M::wrapped(inner))
            }
            TAG_ENCRYPTED => {
                let arr = &item.items()[0];
                if arr.major != 4 {
                    return Err(RecErr::BadEncrypted("not an array"));
                }
                let e = arr.items();
                if e.len() != 4 {
                    return Err(RecErr::BadEncrypted("needs ciphertext, nonce, auth, aad(digest)"));
                }
                for x in e {
                    if x.major != 2 {
                        return Err(RecErr::BadEncrypted("element not a byte string"));
                    }
                }
                let blen = |i: usize| match &e[i].body {
                    Body::Bytes(b) => b.len(),
                    _ => 0,
                };
                if blen(1) != 12 {
                    return Err(RecErr::BadEncrypted("nonce length"));
                }
                if blen(2) != 16 {
                    return Err(RecErr::BadEncrypted("auth length"));
                }
                let aad = match &e[3].body {
                    Body::Bytes(b) => b.clone(),
                    _ => vec![],
                };
                let aad_item = Item::decode(&aad).map_err(|_| RecErr::BadEncrypted("aad not CBOR"))?;
                if !aad_item.is_deterministic() {
                    return Err(RecErr::BadEncrypted("aad not deterministic"));
                }
                let d = digest_from_tagged(&aad_item).ok_or(RecErr::BadEncrypted("aad not a tagged digest"))?;
                Ok(M::unknown(Obsc::Encrypted(u32::MAX), d))
            }
            TAG_COMPRESSED => {
                let arr = &item.items()[0];
                if arr.major != 4 {
                    return Err(RecErr::BadCompressed("not an array"));
                }
                let e = arr.items();
                if e.len() != 4 {
                    return Err(RecErr::BadCompressed("needs checksum, size, data, digest"));
                }
                if e[0].major != 0 || e[0].arg > u32::MAX as u64 {
                    return Err(RecErr::BadCompressed("checksum"));
                }
                if e[1].major != 0 {
                    return Err(RecErr::BadCompressed("size"));
                }
                if e[2].major != 2 {
                    return Err(RecErr::BadCompressed("data"));
                }
                let d = digest_from_tagged(&e[3]).ok_or(RecErr::BadCompressed("digest"))?;
                Ok(M::unknown(Obsc::Compressed, d))
            }
            t => Err(RecErr::UnknownTag(t)),
        },
        2 => match &item.body {
            Body::Bytes(b) if b.len() == 32 => {
                let mut d = [0u8; 32];
                d.copy_from_slice(b);
                Ok(M::unknown(Obsc::Elided, d))
            }
            _ => Err(RecErr::DigestLength),
        },
        4 => {
            let e = item.items();
            if e.len() < 2 {
                return Err(RecErr::NodeArity);
            }
            let subject = rec_untagged(&e[0], legacy, depth + 1)?;
            let mut assertions = Vec::new();
            for x in &e[1..] {
                let a = rec_untagged(x, legacy, depth + 1)?;
                if !a.assertion_slot_ok() {
                    return Err(RecErr::AssertionSlot);
                }
                assertions.push(a);
            }
            for w in assertions.windows(2) {
                if w[0].digest() == w[1].digest() {
                    return Err(RecErr::NodeDuplicate);
                }
                if w[0].digest() > w[1].digest() {
                    return Err(RecErr::NodeOrder);
                }
            }
            Ok(M::node(subject, assertions))
        }
        5 => {
            let e = item.items();
            if e.len() != 2 {
                return Err(RecErr::AssertionMapArity);
            }
            let p = rec_untagged(&e[0], legacy, depth + 1)?;
            let o = rec_untagged(&e[1], legacy, depth + 1)?;
            Ok(M::assertion(p, o))
        }
        0 => Ok(M::known(item.arg)),
        _ => Err(RecErr::InvalidCase),
    }
}

pub fn dhex(d: &D) -> String {
    crate::cv::hex(&d[..4])
}
