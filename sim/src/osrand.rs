//! Seam over the operating system's randomness, so that one seed really is one execution.
//!
//! Two things inside a run used to be outside the simulator's control: the keys of std's
//! `RandomState` (iteration order of every `HashMap`/`HashSet` the library creates) and the
//! randomness pqcrypto draws for ML-KEM / ML-DSA. Both reach the kernel through the C symbol
//! `getrandom` (std looks it up as a weak symbol precisely so that it can be interposed; the
//! getrandom crate is built with `getrandom_backend="linux_getrandom"`, see .cargo/config.toml).
//! This binary defines that symbol:
//!
//!  * a thread that has not been primed gets the real system call (nothing changes for it);
//!  * `prime_thread(k0, k1)` makes the calling thread's `RandomState` keys exactly (k0, k1): std draws
//!    them once per thread, on the first `RandomState::new()`, and then only increments k0;
//!  * `set_stream(seed)` makes every later `getrandom` call of the thread a function of `seed`
//!    (installed at the start of every run from the run seed).
//!
//! `peek_keys()` reads the thread's current keys (it costs one increment), so a violating run can
//! record them in its replay file and the replay can start a fresh thread primed with them.

use std::cell::Cell;
use std::collections::hash_map::RandomState;
use std::ffi::{c_long, c_uint, c_void};
use std::sync::atomic::{AtomicU8, Ordering};

extern "C" {
    fn syscall(num: c_long, ...) -> c_long;
}
#[cfg(target_arch = "x86_64")]
const SYS_GETRANDOM: c_long = 318;
#[cfg(target_arch = "aarch64")]
const SYS_GETRANDOM: c_long = 278;

/// Stack size of every thread that executes runs (workers, replay, minimisation): the same everywhere.
pub const STACK: usize = 16 << 20;

thread_local! {
    // 0 = pass through to the kernel, 1 = next 16-byte request returns PRIME, 2 = deterministic stream
    static MODE: Cell<u8> = const { Cell::new(0) };
    static PRIME: Cell<(u64, u64)> = const { Cell::new((0, 0)) };
    static STREAM: Cell<u64> = const { Cell::new(0) };
    static DRAWN: Cell<u64> = const { Cell::new(0) };
}

fn splitmix(state: &mut u64) -> u64 {
    *state = state.wrapping_add(0x9e3779b97f4a7c15);
    let mut z = *state;
    z = (z ^ (z >> 30)).wrapping_mul(0xbf58476d1ce4e5b9);
    z = (z ^ (z >> 27)).wrapping_mul(0x94d049bb133111eb);
    z ^ (z >> 31)
}

/// The interposed libc entry point.
///
/// # Safety
/// `buf` must be valid for `len` bytes, as for the libc function.
#[no_mangle]
pub unsafe extern "C" fn getrandom(buf: *mut c_void, len: usize, flags: c_uint) -> isize {
    let mode = MODE.try_with(|m| m.get()).unwrap_or(0);
    if mode == 0 || len == 0 {
        return syscall(SYS_GETRANDOM, buf, len, flags) as isize;
    }
    let out = std::slice::from_raw_parts_mut(buf as *mut u8, len);
    if mode == 1 && len == 16 {
        let (k0, k1) = PRIME.with(|p| p.get());
        out[..8].copy_from_slice(&k0.to_ne_bytes());
        out[8..].copy_from_slice(&k1.to_ne_bytes());
        MODE.with(|m| m.set(2));
        return len as isize;
    }
    let mut st = STREAM.with(|s| s.get());
    for chunk in out.chunks_mut(8) {
        let w = splitmix(&mut st).to_le_bytes();
        chunk.copy_from_slice(&w[..chunk.len()]);
    }
    STREAM.with(|s| s.set(st));
    DRAWN.with(|d| d.set(d.get() + len as u64));
    len as isize
}

// which half of a RandomState is k0: 0 / 1, 2 = not yet determined, 3 = seam unusable
static K0_INDEX: AtomicU8 = AtomicU8::new(2);

fn raw_state() -> [u64; 2] {
    // RandomState is two u64 keys (k0, k1); the field order is established by `selfcheck`.
    const _: () = assert!(std::mem::size_of::<RandomState>() == 16);
    unsafe { std::mem::transmute::<RandomState, [u64; 2]>(RandomState::new()) }
}

/// Is the seam usable in this build (established once by `selfcheck`)?
pub fn active() -> bool {
    K0_INDEX.load(Ordering::Relaxed) < 2
}

/// Make this thread's RandomState keys (k0, k1). Must be the first thing the thread does. Returns false
/// if the thread had drawn its keys already.
pub fn prime_thread(k0: u64, k1: u64) -> bool {
    PRIME.with(|p| p.set((k0.wrapping_sub(1), k1)));
    MODE.with(|m| m.set(1));
    let got = raw_state(); // triggers std's one-off key draw; consumes k0-1
    MODE.with(|m| m.set(2));
    match K0_INDEX.load(Ordering::Relaxed) {
        0 => got == [k0.wrapping_sub(1), k1],
        1 => got == [k1, k0.wrapping_sub(1)],
        _ => true,
    }
}

/// The thread's current keys (k0, k1). Reading them costs one increment, exactly as it does again when a
/// thread primed with the returned pair reads them at the same point: `prime_thread(k0, k1); peek_keys()`
/// leaves a thread in the state this thread is in after the call.
pub fn peek_keys() -> Option<(u64, u64)> {
    let s = raw_state();
    match K0_INDEX.load(Ordering::Relaxed) {
        0 => Some((s[0], s[1])),
        1 => Some((s[1], s[0])),
        _ => None,
    }
}

/// From now on every getrandom call of this thread is a function of `seed`.
pub fn set_stream(seed: u64) {
    STREAM.with(|s| s.set(seed ^ 0x6f73_7261_6e64));
    if MODE.with(|m| m.get()) != 1 {
        MODE.with(|m| m.set(2));
    }
}

/// Run `f` with a temporary stream, then restore the previous one (used for the key pool).
pub fn with_stream<T>(seed: u64, f: impl FnOnce() -> T) -> T {
    let (m, s) = (MODE.with(|m| m.get()), STREAM.with(|s| s.get()));
    STREAM.with(|x| x.set(seed));
    MODE.with(|x| x.set(2));
    let r = f();
    STREAM.with(|x| x.set(s));
    MODE.with(|x| x.set(m));
    r
}

/// Bytes served from the deterministic stream on this thread so far.
pub fn drawn() -> u64 {
    DRAWN.with(|d| d.get())
}

/// Run `f` on a fresh OS thread whose hash keys are (k0, k1) (or the kernel's, if None).
pub fn on_primed_thread<T: Send>(keys: Option<(u64, u64)>, f: impl FnOnce() -> T + Send) -> T {
    std::thread::scope(|s| {
        std::thread::Builder::new()
            .stack_size(STACK)
            .spawn_scoped(s, move || {
                if let Some((k0, k1)) = keys {
                    if active() {
                        prime_thread(k0, k1);
                    }
                }
                f()
            })
            .expect("spawn")
            .join()
    })
    .unwrap_or_else(|p| std::panic::resume_unwind(p))
}

/// Start-up check: the interposition works, and which half of RandomState is k0. If anything is not
/// as expected the seam is switched off (hash keys then come from the kernel as before, and replay of a
/// hash-order dependent violation falls back to repeated attempts); never an alarm.
pub fn selfcheck() -> bool {
    let (a, b) = (0x1111_2222_3333_4444u64, 0xaaaa_bbbb_cccc_ddddu64);
    let r = std::thread::spawn(move || {
        PRIME.with(|p| p.set((a, b)));
        MODE.with(|m| m.set(1));
        let s1 = raw_state();
        let s2 = raw_state();
        // pqcrypto path: getrandom crate -> our symbol
        MODE.with(|m| m.set(2));
        STREAM.with(|s| s.set(7));
        let mut x = [0u8; 24];
        let mut y = [0u8; 24];
        let before = drawn();
        let ok1 = getrandom_crate_fill(&mut x);
        STREAM.with(|s| s.set(7));
        let ok2 = getrandom_crate_fill(&mut y);
        let through = ok1 && ok2 && x == y && drawn() == before + 48;
        (s1, s2, through)
    })
    .join();
    let idx = match r {
        Ok((s1, s2, through)) => {
            if !through {
                3
            } else if s1 == [a, b] && s2 == [a.wrapping_add(1), b] {
                0
            } else if s1 == [b, a] && s2 == [b, a.wrapping_add(1)] {
                1
            } else {
                3
            }
        }
        Err(_) => 3,
    };
    K0_INDEX.store(idx, Ordering::Relaxed);
    idx < 2
}

fn getrandom_crate_fill(buf: &mut [u8]) -> bool {
    // the same route pqcrypto-internals takes
    getrandom03::fill(buf).is_ok()
}
