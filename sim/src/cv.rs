//! Independent CBOR model: a value type (`CV`) with a deterministic-CBOR *writer*, and a raw
//! item reader/writer (`Item`) that keeps the exact head form so that the simulator can make
//! structure-aware mutations (including non-canonical ones) and re-encode them exactly.
//! Shares no code with dcbor.

#[derive(Clone, Debug, PartialEq, Eq, Hash, PartialOrd, Ord)]
pub enum CV {
    /// unsigned integer
    U(u64),
    /// negative integer -1-n
    N(u64),
    B(Vec<u8>),
    T(String),
    A(Vec<CV>),
    /// map; kept sorted by encoded key on construction (`CV::map`)
    M(Vec<(CV, CV)>),
    Tag(u64, Box<CV>),
    /// simple value 20 false / 21 true / 22 null
    S(u8),
    /// float, stored as f64 bits; must not be NaN-noncanonical; integral values in integer
    /// range must not be stored here (use `CV::num`)
    F(u64),
}

fn head(major: u8, arg: u64, out: &mut Vec<u8>) {
    let m = major << 5;
    if arg < 24 {
        out.push(m | arg as u8);
    } else if arg <= 0xff {
        out.push(m | 24);
        out.push(arg as u8);
    } else if arg <= 0xffff {
        out.push(m | 25);
        out.extend_from_slice(&(arg as u16).to_be_bytes());
    } else if arg <= 0xffff_ffff {
        out.push(m | 26);
        out.extend_from_slice(&(arg as u32).to_be_bytes());
    } else {
        out.push(m | 27);
        out.extend_from_slice(&arg.to_be_bytes());
    }
}

/// f64 -> f16 bits if exactly representable
fn f64_to_f16_exact(v: f64) -> Option<u16> {
    if v.is_nan() {
        return Some(0x7e00);
    }
    let bits = v.to_bits();
    let sign = ((bits >> 63) as u16) << 15;
    if v.is_infinite() {
        return Some(sign | 0x7c00);
    }
    if v == 0.0 {
        return Some(sign);
    }
    let exp = ((bits >> 52) & 0x7ff) as i32 - 1023;
    let mant = bits & 0x000f_ffff_ffff_ffff;
    if exp >= -14 && exp <= 15 {
        // normal half: 10 mantissa bits
        if mant & ((1u64 << 42) - 1) != 0 {
            return None;
        }
        let m = (mant >> 42) as u16;
        let e = ((exp + 15) as u16) << 10;
        Some(sign | e | m)
    } else if exp >= -24 && exp < -14 {
        // subnormal half: value = m * 2^-24, m in 1..1023
        let full = mant | (1u64 << 52); // 53-bit significand, value = full * 2^(exp-52)
        let shift = (52 - (exp + 24)) as u32; // m = full >> shift
        if shift >= 64 {
            return None;
        }
        if full & ((1u64 << shift) - 1) != 0 {
            return None;
        }
        let m = (full >> shift) as u16;
        if m == 0 || m > 0x3ff {
            return None;
        }
        Some(sign | m)
    } else {
        None
    }
}

impl CV {
    pub fn text(s: &str) -> CV {
        CV::T(s.to_string())
    }
    pub fn int(i: i128) -> CV {
        if i >= 0 {
            CV::U(i as u64)
        } else {
            CV::N((-1 - i) as u64)
        }
    }
    /// dCBOR numeric reduction: the canonical value for an f64 input.
    pub fn num(v: f64) -> CV {
        if v.is_nan() {
            return CV::F(f64::NAN.to_bits());
        }
        if v.is_finite() && v.fract() == 0.0 {
            // [-2^63, 2^64-1]
            if v >= 0.0 && v < 18446744073709551616.0 {
                return CV::U(v as u64);
            }
            if v < 0.0 && v >= -9223372036854775808.0 {
                let i = v as i128;
                return CV::N((-1 - i) as u64);
            }
        }
        CV::F(v.to_bits())
    }
    /// Map with keys sorted by their encoding (bytewise lexicographic), duplicates removed (last wins).
    pub fn map(mut entries: Vec<(CV, CV)>) -> CV {
        entries.sort_by(|a, b| a.0.encode().cmp(&b.0.encode()));
        let mut out: Vec<(CV, CV)> = Vec::new();
        for e in entries {
            if let Some(last) = out.last_mut() {
                if last.0 == e.0 {
                    *last = e;
                    continue;
                }
            }
            out.push(e);
        }
        CV::M(out)
    }
    pub fn tag(t: u64, v: CV) -> CV {
        CV::Tag(t, Box::new(v))
    }
    pub fn encode(&self) -> Vec<u8> {
        let mut out = Vec::new();
        self.encode_into(&mut out);
        out
    }
    pub fn encode_into(&self, out: &mut Vec<u8>) {
        match self {
            CV::U(n) => head(0, *n, out),
            CV::N(n) => head(1, *n, out),
            CV::B(b) => {
                head(2, b.len() as u64, out);
                out.extend_from_slice(b);
            }
            CV::T(s) => {
                head(3, s.len() as u64, out);
                out.extend_from_slice(s.as_bytes());
            }
            CV::A(items) => {
                head(4, items.len() as u64, out);
                for i in items {
                    i.encode_into(out);
                }
            }
            CV::M(entries) => {
                head(5, entries.len() as u64, out);
                for (k, v) in entries {
                    k.encode_into(out);
                    v.encode_into(out);
                }
            }
            CV::Tag(t, v) => {
                head(6, *t, out);
                v.encode_into(out);
            }
            CV::S(s) => out.push(0xe0 | *s),
            CV::F(bits) => {
                let v = f64::from_bits(*bits);
                if v.is_nan() {
                    out.extend_from_slice(&[0xf9, 0x7e, 0x00]);
                } else if let Some(h) = f64_to_f16_exact(v) {
                    out.push(0xf9);
                    out.extend_from_slice(&h.to_be_bytes());
                } else if (v as f32) as f64 == v {
                    out.push(0xfa);
                    out.extend_from_slice(&(v as f32).to_bits().to_be_bytes());
                } else {
                    out.push(0xfb);
                    out.extend_from_slice(&bits.to_be_bytes());
                }
            }
        }
    }
}

// ------------------------------------------------------------------------------------------
// Raw items: exact representation of any well-formed CBOR item, canonical or not.

#[derive(Clone, Debug, PartialEq, Eq)]
pub struct Item {
    pub major: u8,
    /// additional-information bits as they appear in the head (0..=27, 31 = indefinite)
    pub ai: u8,
    pub arg: u64,
    pub body: Body,
}

#[derive(Clone, Debug, PartialEq, Eq)]
pub enum Body {
    None,
    Bytes(Vec<u8>),
    /// array elements; map entries flattened k0,v0,k1,v1…; the single tagged item;
    /// for indefinite-length strings: the chunks
    Items(Vec<Item>),
}

#[derive(Debug)]
pub enum DecErr {
    Truncated,
    Reserved,
    Trailing,
    TooDeep,
    BadBreak,
}

fn min_ai(arg: u64) -> u8 {
    if arg < 24 {
        arg as u8
    } else if arg <= 0xff {
        24
    } else if arg <= 0xffff {
        25
    } else if arg <= 0xffff_ffff {
        26
    } else {
        27
    }
}

impl Item {
    pub fn new(major: u8, arg: u64, body: Body) -> Item {
        Item { major, ai: min_ai(arg), arg, body }
    }
    pub fn uint(n: u64) -> Item {
        Item::new(0, n, Body::None)
    }
    pub fn bytes(b: Vec<u8>) -> Item {
        Item::new(2, b.len() as u64, Body::Bytes(b))
    }
    pub fn text(s: &str) -> Item {
        Item::new(3, s.len() as u64, Body::Bytes(s.as_bytes().to_vec()))
    }
    pub fn array(items: Vec<Item>) -> Item {
        Item::new(4, items.len() as u64, Body::Items(items))
    }
    pub fn map_flat(items: Vec<Item>) -> Item {
        Item::new(5, (items.len() / 2) as u64, Body::Items(items))
    }
    pub fn tagged(t: u64, inner: Item) -> Item {
        Item::new(6, t, Body::Items(vec![inner]))
    }
    pub fn is_tag(&self, t: u64) -> bool {
        self.major == 6 && self.arg == t
    }
    pub fn items(&self) -> &[Item] {
        match &self.body {
            Body::Items(v) => v,
            _ => &[],
        }
    }
    pub fn items_mut(&mut self) -> Option<&mut Vec<Item>> {
        match &mut self.body {
            Body::Items(v) => Some(v),
            _ => None,
        }
    }
    /// re-establish the array/map count after editing children (keeps minimal head form)
    pub fn fix_count(&mut self) {
        if let Body::Items(v) = &self.body {
            if self.major == 4 {
                self.arg = v.len() as u64;
                self.ai = min_ai(self.arg);
            } else if self.major == 5 {
                self.arg = (v.len() / 2) as u64;
                self.ai = min_ai(self.arg);
            }
        }
        if let Body::Bytes(b) = &self.body {
            if self.major == 2 || self.major == 3 {
                self.arg = b.len() as u64;
                self.ai = min_ai(self.arg);
            }
        }
    }

    pub fn encode(&self) -> Vec<u8> {
        let mut out = Vec::new();
        self.encode_into(&mut out);
        out
    }
    pub fn encode_into(&self, out: &mut Vec<u8>) {
        let m = self.major << 5;
        match self.ai {
            0..=23 => out.push(m | self.ai),
            24 => {
                out.push(m | 24);
                out.push(self.arg as u8);
            }
            25 => {
                out.push(m | 25);
                out.extend_from_slice(&(self.arg as u16).to_be_bytes());
            }
            26 => {
                out.push(m | 26);
                out.extend_from_slice(&(self.arg as u32).to_be_bytes());
            }
            27 => {
                out.push(m | 27);
                out.extend_from_slice(&self.arg.to_be_bytes());
            }
            _ => out.push(m | 31),
        }
        match &self.body {
            Body::None => {}
            Body::Bytes(b) => out.extend_from_slice(b),
            Body::Items(v) => {
                for i in v {
                    i.encode_into(out);
                }
            }
        }
        if self.ai == 31 && self.major != 7 {
            out.push(0xff);
        }
    }

    pub fn decode(data: &[u8]) -> Result<Item, DecErr> {
        let mut pos = 0usize;
        let item = Self::decode_at(data, &mut pos, 0)?;
        if pos != data.len() {
            return Err(DecErr::Trailing);
        }
        Ok(item)
    }
    /// decode one item and report how many bytes it used (trailing bytes allowed)
    pub fn decode_prefix(data: &[u8]) -> Result<(Item, usize), DecErr> {
        let mut pos = 0usize;
        let item = Self::decode_at(data, &mut pos, 0)?;
        Ok((item, pos))
    }
    fn decode_at(data: &[u8], pos: &mut usize, depth: usize) -> Result<Item, DecErr> {
        if depth > 256 {
            return Err(DecErr::TooDeep);
        }
        let b = *data.get(*pos).ok_or(DecErr::Truncated)?;
        *pos += 1;
        let major = b >> 5;
        let ai = b & 0x1f;
        let take = |pos: &mut usize, n: usize| -> Result<&[u8], DecErr> {
            if data.len() - *pos < n {
                return Err(DecErr::Truncated);
            }
            let s = &data[*pos..*pos + n];
            *pos += n;
            Ok(s)
        };
        let arg: u64 = match ai {
            0..=23 => ai as u64,
            24 => take(pos, 1)?[0] as u64,
            25 => u16::from_be_bytes(take(pos, 2)?.try_into().unwrap()) as u64,
            26 => u32::from_be_bytes(take(pos, 4)?.try_into().unwrap()) as u64,
            27 => u64::from_be_bytes(take(pos, 8)?.try_into().unwrap()),
            28..=30 => return Err(DecErr::Reserved),
            _ => 0,
        };
        if ai == 31 {
            // indefinite length
            match major {
                2 | 3 | 4 | 5 => {
                    let mut items = Vec::new();
                    loop {
                        let nb = *data.get(*pos).ok_or(DecErr::Truncated)?;
                        if nb == 0xff {
                            *pos += 1;
                            break;
                        }
                        items.push(Self::decode_at(data, pos, depth + 1)?);
                    }
                    return Ok(Item { major, ai, arg: 0, body: Body::Items(items) });
                }
                _ => return Err(DecErr::BadBreak),
            }
        }
        let body = match major {
            0 | 1 | 7 => Body::None,
            2 | 3 => {
                if arg > (data.len() - *pos) as u64 {
                    return Err(DecErr::Truncated);
                }
                Body::Bytes(take(pos, arg as usize)?.to_vec())
            }
            4 | 5 => {
                let n = if major == 4 { arg } else { arg.checked_mul(2).ok_or(DecErr::Truncated)? };
                if n > (data.len() - *pos) as u64 {
                    return Err(DecErr::Truncated);
                }
                let mut items = Vec::with_capacity(n as usize);
                for _ in 0..n {
                    items.push(Self::decode_at(data, pos, depth + 1)?);
                }
                Body::Items(items)
            }
            _ => Body::Items(vec![Self::decode_at(data, pos, depth + 1)?]),
        };
        Ok(Item { major, ai, arg, body })
    }

    /// Is this item deterministic CBOR in the dCBOR sense, as far as this model knows it:
    /// minimal heads, definite lengths, valid UTF-8, map keys strictly ascending by encoding,
    /// simple values only false/true/null, floats shortest-form and not reducible to integers.
    /// (NFC normalisation of text is not modelled: callers must not rely on `true` for
    /// non-ASCII text they did not generate themselves.)
    pub fn is_deterministic(&self) -> bool {
        if self.ai == 31 {
            return false;
        }
        if self.major != 7 && self.ai != min_ai(self.arg) {
            return false;
        }
        match self.major {
            0 | 1 => true,
            2 => true,
            3 => match &self.body {
                Body::Bytes(b) => std::str::from_utf8(b).is_ok(),
                _ => false,
            },
            4 => self.items().iter().all(|i| i.is_deterministic()),
            5 => {
                let it = self.items();
                if !it.iter().all(|i| i.is_deterministic()) {
                    return false;
                }
                let keys: Vec<Vec<u8>> = it.chunks(2).map(|kv| kv[0].encode()).collect();
                keys.windows(2).all(|w| w[0] < w[1])
            }
            6 => self.items()[0].is_deterministic(),
            _ => match self.ai {
                20 | 21 | 22 => true,
                25 => {
                    // f16: canonical unless it is an integer value (reducible) or a non-canonical NaN
                    let v = f16_bits_to_f64(self.arg as u16);
                    if v.is_nan() {
                        return self.arg == 0x7e00;
                    }
                    matches!(CV::num(v), CV::F(_))
                }
                26 => {
                    let v = f32::from_bits(self.arg as u32) as f64;
                    if v.is_nan() {
                        return false;
                    }
                    if f64_to_f16_exact(v).is_some() {
                        return false;
                    }
                    matches!(CV::num(v), CV::F(_))
                }
                27 => {
                    let v = f64::from_bits(self.arg);
                    if v.is_nan() {
                        return false;
                    }
                    if (v as f32) as f64 == v {
                        return false;
                    }
                    matches!(CV::num(v), CV::F(_))
                }
                _ => false,
            },
        }
    }

    /// Convert to a value; only meaningful for deterministic items.
    pub fn to_cv(&self) -> Option<CV> {
        if self.ai == 31 {
            return None;
        }
        Some(match self.major {
            0 => CV::U(self.arg),
            1 => CV::N(self.arg),
            2 => match &self.body {
                Body::Bytes(b) => CV::B(b.clone()),
                _ => return None,
            },
            3 => match &self.body {
                Body::Bytes(b) => CV::T(String::from_utf8(b.clone()).ok()?),
                _ => return None,
            },
            4 => CV::A(self.items().iter().map(|i| i.to_cv()).collect::<Option<Vec<_>>>()?),
            5 => {
                let mut v = Vec::new();
                for kv in self.items().chunks(2) {
                    v.push((kv[0].to_cv()?, kv[1].to_cv()?));
                }
                CV::M(v)
            }
            6 => CV::Tag(self.arg, Box::new(self.items()[0].to_cv()?)),
            _ => match self.ai {
                20 | 21 | 22 => CV::S(self.ai),
                25 => CV::F(f16_bits_to_f64(self.arg as u16).to_bits()),
                26 => CV::F((f32::from_bits(self.arg as u32) as f64).to_bits()),
                27 => CV::F(self.arg),
                _ => return None,
            },
        })
    }

    pub fn from_cv(cv: &CV) -> Item {
        Item::decode(&cv.encode()).expect("model encoder produced undecodable bytes")
    }

    pub fn depth(&self) -> usize {
        1 + self.items().iter().map(|i| i.depth()).max().unwrap_or(0)
    }
    pub fn count(&self) -> usize {
        1 + self.items().iter().map(|i| i.count()).sum::<usize>()
    }
}

pub fn f16_bits_to_f64(h: u16) -> f64 {
    let sign = if h & 0x8000 != 0 { -1.0 } else { 1.0 };
    let exp = ((h >> 10) & 0x1f) as i32;
    let mant = (h & 0x3ff) as f64;
    let v = if exp == 0 {
        mant * (2.0f64).powi(-24)
    } else if exp == 31 {
        if mant == 0.0 {
            f64::INFINITY
        } else {
            f64::NAN
        }
    } else {
        (1.0 + mant / 1024.0) * (2.0f64).powi(exp - 15)
    };
    sign * v
}

pub fn hex(b: &[u8]) -> String {
    let mut s = String::with_capacity(b.len() * 2);
    for x in b {
        s.push_str(&format!("{:02x}", x));
    }
    s
}

pub fn unhex(s: &str) -> Option<Vec<u8>> {
    if s.len() % 2 != 0 {
        return None;
    }
    (0..s.len()).step_by(2).map(|i| u8::from_str_radix(&s[i..i + 2], 16).ok()).collect()
}
