//! Multi-party families: signers/holders/verifiers (C09), senders/recipients (C10),
//! share custodians (C11), provers/verifiers (C12). Parties exchange serialised envelopes
//! through the simulator's transport; faults: wrong keys, Byzantine 'signed' assertions,
//! message loss / duplication / misrouting, tampered proofs.

use crate::bridge::*;
use crate::core::{Ctx, Scenario, Step};
use crate::hist::{self, StepResult, World};
use crate::keys;
use crate::model::*;
use crate::rng::SimRng;
use crate::wire::{byte_mutate, decode_guarded, struct_mutate, Decoded};
use bc_components::{DigestProvider, SSKRGroupSpec, SSKRSpec, Signature, Signer, SigningOptions, SigningPrivateKey, Verifier};
use bc_envelope::prelude::*;
use bc_envelope::SignatureMetadata;
use std::collections::{BTreeMap, BTreeSet};

fn ident(a: &Envelope, b: &Envelope) -> bool {
    a.to_cbor_data() == b.to_cbor_data()
}

/// the transport: everything a receiving party learns arrives through the decoder
fn transmit(ctx: &mut Ctx, e: &Envelope) -> Option<Envelope> {
    ctx.sim_ticks += 1;
    match decode_guarded(&e.to_cbor_data()) {
        Decoded::Ok(x) => Some(x),
        _ => None,
    }
}

/// does the envelope already carry a top-level assertion with this known-value predicate?
/// (a pre-existing, possibly malformed 'signed' / 'hasRecipient' / 'sskrShare' assertion: the
/// properties do not fix the outcome then - Err or the correct result, never a wrong one)
fn has_pred(env: &Envelope, kv: KnownValue) -> bool {
    !env.assertions_with_predicate(kv).is_empty()
}

/// Known defect D15 (inside the ssh-key crate, reached through bc-components): about 1 % of SSH ECDSA
/// (P-256 / P-384) signatures are mis-encoded (an r or s value with a leading zero byte) - they fail to
/// verify and fail to parse back ("length invalid"). Signing is deterministic, so re-signing the very same
/// digest with the same key and checking it with the raw verifier pins a failure on the primitive, not on
/// the envelope layer.
fn ssh_ecdsa_primitive_fails(sch: u8, id: u8, digest: &[u8]) -> bool {
    if sch != keys::SIG_SSH_P256 && sch != keys::SIG_SSH_P384 {
        return false;
    }
    let (sk, pk) = keys::signing(sch, id);
    match sk.sign_with_options(&digest, keys::sig_options(sch)) {
        Ok(sig) => {
            let direct = pk.verify(&sig, &digest);
            let reparsed = Envelope::try_from_cbor_data(Envelope::new(sig).to_cbor_data()).ok().and_then(|e| e.extract_subject::<Signature>().ok()).map(|s2| pk.verify(&s2, &digest)).unwrap_or(false);
            !direct || !reparsed
        }
        Err(_) => true,
    }
}

// ======================================================================================
// C09 signatures

/// State of the signed document as the model sees it.
struct SignState {
    env: Envelope,
    /// (scheme, id) with an intact valid signature over the current subject digest
    valid: BTreeSet<(u8, u8)>,
    /// every (key, subject digest) pair for which an intact signature is attached
    signed: BTreeSet<((u8, u8), D)>,
    /// keys whose standing the model does not fix (their own 'signed' assertion was obscured or forged around)
    unknown: BTreeSet<(u8, u8)>,
    /// a non-obscured non-signature object sits under 'signed': verification may return Err for anyone
    garbage: bool,
    with_meta: BTreeSet<(u8, u8)>,
}

fn universe(thorough: bool) -> Vec<(u8, u8)> {
    let mut v = vec![];
    // quick: Schnorr, ECDSA, Ed25519 and SSH-Ed25519; thorough: all deterministic schemes
    let ns = if thorough { keys::N_SIG_DET } else { keys::N_SIG_FAST + 1 };
    for s in 0..ns {
        for id in 0..3u8 {
            v.push((s, id));
        }
    }
    v
}

fn check_sign_state(ctx: &mut Ctx, st: &SignState, thorough: bool, what: &str) {
    // the verifier works on what the network delivered
    let env = match transmit(ctx, &st.env) {
        Some(e) => e,
        None => {
            ctx.violate("C09.transport", format!("signed envelope does not survive encode/decode after {}", what));
            return;
        }
    };
    for (s, id) in universe(thorough) {
        let (_, pk) = keys::signing(s, id);
        let r = guarded(|| env.has_signature_from(&pk));
        let r = match r {
            Ok(r) => r,
            Err(p) => {
                ctx.violate_sig("C16.no-panic", format!("has_signature_from panicked: {}", p), p);
                continue;
            }
        };
        ctx.checked();
        if st.unknown.contains(&(s, id)) {
            continue;
        }
        let expect = st.valid.contains(&(s, id));
        match (r, expect) {
            (Ok(true), true) | (Ok(false), false) => {}
            (Err(_), _) if st.garbage => {}
            (Ok(true), false) => ctx.violate("C09.table", format!("after {}: key ({},{}) has no valid signature over this subject but has_signature_from says true", what, s, id)),
            (Ok(false), true) => ctx.violate("C09.table", format!("after {}: key ({},{}) validly signed this subject but has_signature_from says false", what, s, id)),
            (Err(e), true) => ctx.violate("C09.table", format!("after {}: key ({},{}) validly signed this subject but has_signature_from fails: {}", what, s, id, e)),
            // "does not verify": an error is as good as false for a key that did not sign this subject
            (Err(_), false) => {}
        }
        // verify_signature_from agrees
        if let Ok(v) = guarded(|| env.verify_signature_from(&pk)) {
            if v.is_ok() != (expect && !st.garbage) && !(st.garbage) {
                ctx.violate("C09.table", format!("after {}: verify_signature_from disagrees with the signer model for ({},{})", what, s, id));
            }
        }
    }
}

fn covered_by_outer_signature(env: &Envelope, metadata_env: &Envelope, pk: &dyn Verifier) -> bool {
    // Independent check with the raw Verifier: some 'signed' object of `env` is a node whose subject
    // wraps exactly `metadata_env` and which carries a 'signed' assertion whose signature by pk covers
    // that wrapped subject's digest.
    for a in env.assertions() {
        let (p, o) = match a.subject().case() {
            bc_envelope::base::envelope::EnvelopeCase::Assertion(x) => (x.predicate(), x.object()),
            _ => continue,
        };
        if digest_of(&p) != digest_of(&Envelope::new(known_values::SIGNED)) {
            continue;
        }
        let os = o.subject();
        let inner = match os.case() {
            bc_envelope::base::envelope::EnvelopeCase::Wrapped { envelope, .. } => envelope.clone(),
            _ => continue,
        };
        if inner.to_cbor_data() != metadata_env.to_cbor_data() {
            continue;
        }
        for oa in o.assertions() {
            if let bc_envelope::base::envelope::EnvelopeCase::Assertion(x) = oa.subject().case() {
                if digest_of(&x.predicate()) == digest_of(&Envelope::new(known_values::SIGNED)) {
                    if let Ok(sig) = x.object().extract_subject::<Signature>() {
                        if pk.verify(&sig, os.digest().as_ref()) {
                            return true;
                        }
                    }
                }
            }
        }
    }
    false
}

pub fn run_sign(scn: &Scenario, ctx: &mut Ctx) {
    let thorough = scn.cfg("thorough", 0) == 1;
    let mut w = World::new(scn.cfg("leafdom", crate::gen::DOM_ALL));
    let mut state: Option<SignState> = None;
    for (i, st) in scn.steps.iter().enumerate() {
        ctx.step = i;
        ctx.sim_ticks += 1;
        let op = st.op.as_str();
        if !op.starts_with("S.") {
            if !matches!(hist::exec_step(&mut w, ctx, st), StepResult::Skipped) {
                ctx.executed += 1;
            }
            continue;
        }
        ctx.executed += 1;
        if op == "S.Start" {
            let d = match w.idx(st.arg(0)) {
                Some(d) => d,
                None => continue,
            };
            let pre = has_pred(&w.docs[d].env, known_values::SIGNED);
            state = Some(SignState { env: w.docs[d].env.clone(), valid: BTreeSet::new(), unknown: BTreeSet::new(), garbage: pre, with_meta: BTreeSet::new(), signed: BTreeSet::new() });
            continue;
        }
        let s = match state.as_mut() {
            Some(s) => s,
            None => continue,
        };
        let nsch = if thorough { keys::N_SIG_DET } else { keys::N_SIG_FAST + 1 } as u64;
        match op {
            "S.Sign" => {
                let sch = (st.arg(0) % nsch) as u8;
                let id = (st.arg(1) % 3) as u8;
                let (sk, _) = keys::signing(sch, id);
                let meta = st.arg(2) % 3 == 0;
                let md = if meta { Some(SignatureMetadata::new().with_assertion(known_values::NOTE, format!("m{}", st.arg(2) % 7)).with_assertion("seq", st.arg(2) % 11)) } else { None };
                let plain_call = !meta && !keys::is_ssh(sch) && st.arg(2) % 2 == 1;
                match guarded(|| if plain_call { s.env.add_signature(&sk) } else { s.env.add_signature_opt(&sk, keys::sig_options(sch), md) }) {
                    Ok(e) => {
                        s.env = e;
                        let subj_digest = *s.env.subject().digest().data();
                        if ssh_ecdsa_primitive_fails(sch, id, &subj_digest) {
                            // the signature that was just attached cannot verify: known finding D15
                            ctx.violate_sig("C09.table", format!("a fresh SSH ECDSA signature by key ({},{}) over this subject does not verify / parse back", sch, id), "ssh-key-ecdsa-signature-encoding".to_string());
                            s.unknown.insert((sch, id));
                            s.garbage = true; // an unparsable signature object makes verification report an error for everyone
                        } else if (sch == keys::SIG_SSH_P256 || sch == keys::SIG_SSH_P384) && meta {
                            // the outer signature (over the wrapped metadata) may hit the same defect; not attributable here
                            // (judged on a delivered copy: the mis-encoded signature only fails once it is parsed back)
                            let delivered = transmit(ctx, &s.env);
                            let unparsable = delivered.as_ref().map(|d| {
                                d.objects_for_predicate(known_values::SIGNED).iter().any(|o| {
                                    if o.subject().is_wrapped() {
                                        let outer_bad = o.object_for_predicate(known_values::SIGNED).map(|x| !x.is_obscured() && x.extract_subject::<Signature>().is_err()).unwrap_or(false);
                                        let inner_bad = o.subject().unwrap_envelope().map(|x| x.extract_subject::<Signature>().is_err()).unwrap_or(false);
                                        outer_bad || inner_bad
                                    } else {
                                        false
                                    }
                                })
                            }).unwrap_or(true);
                            if unparsable || !matches!(delivered.map(|d| guarded(|| d.has_signature_from(&keys::signing(sch, id).1))), Some(Ok(Ok(true)))) {
                                s.unknown.insert((sch, id));
                                s.garbage = true;
                            }
                        }
                        // a key whose earlier 'signed' assertion was obscured stays "unknown": with a deterministic
                        // scheme the new assertion has the same digest and is (rightly) dropped as a duplicate
                        if !s.unknown.contains(&(sch, id)) {
                            s.valid.insert((sch, id));
                            s.signed.insert(((sch, id), digest_of(&s.env.subject())));
                        }
                        if meta {
                            s.with_meta.insert((sch, id));
                            ctx.probe("signed-with-metadata");
                        }
                        if keys::is_ssh(sch) {
                            ctx.probe("ssh-scheme");
                        }
                    }
                    Err(p) => {
                        ctx.checked();
                        ctx.violate_sig("C09.table", format!("adding a signature with key ({},{}){} panicked instead of producing a signature that verifies: {}", sch, id, if meta { " and metadata" } else { "" }, p), p);
                    }
                }
                ctx.t(&format!("S.Sign {} {} meta={}", sch, id, meta));
            }
            "S.SignBatch" => {
                // several signers in one call (add_signatures / add_signatures_opt): the same as signing one after
                // the other. Schemes 0..=3 only (deterministic, and free of the known SSH ECDSA encoding defect).
                let mut r = SimRng::new(st.arg(0));
                let k = r.range(2, 3) as usize;
                let who: Vec<(u8, u8)> = (0..k).map(|_| (r.below(4) as u8, r.below(3) as u8)).collect();
                let plain = st.arg(1) % 2 == 0 && who.iter().all(|(sch, _)| !keys::is_ssh(*sch));
                let sks: Vec<SigningPrivateKey> = who.iter().map(|(sch, id)| keys::signing(*sch, *id).0).collect();
                let meta_last = !plain && st.arg(1) % 4 == 1;
                let env0 = s.env.clone();
                let res = if plain {
                    let refs: Vec<&dyn Signer> = sks.iter().map(|k| k as &dyn Signer).collect();
                    guarded(|| env0.add_signatures(&refs))
                } else {
                    let n = sks.len();
                    let items: Vec<(&dyn Signer, Option<SigningOptions>, Option<SignatureMetadata>)> = sks
                        .iter()
                        .zip(who.iter())
                        .enumerate()
                        .map(|(i, (k, (sch, _)))| {
                            let md = if meta_last && i + 1 == n { Some(SignatureMetadata::new().with_assertion(known_values::NOTE, "batch")) } else { None };
                            (k as &dyn Signer, keys::sig_options(*sch), md)
                        })
                        .collect();
                    guarded(|| env0.add_signatures_opt(&items))
                };
                match res {
                    Ok(e) => {
                        s.env = e;
                        for (i, (sch, id)) in who.iter().enumerate() {
                            if !s.unknown.contains(&(*sch, *id)) {
                                s.valid.insert((*sch, *id));
                                s.signed.insert(((*sch, *id), digest_of(&s.env.subject())));
                            }
                            if meta_last && i + 1 == who.len() {
                                s.with_meta.insert((*sch, *id));
                            }
                        }
                        ctx.probe("signed-in-one-batch");
                    }
                    Err(p) => {
                        ctx.checked();
                        ctx.violate_sig("C09.table", format!("adding signatures of {:?} in one call panicked: {}", who, p), p);
                    }
                }
                ctx.t(&format!("S.SignBatch {:?} plain={}", who, plain));
            }
            "S.Detached" => {
                // a signature made apart from the envelope (over the subject digest), checked against the envelope
                // as it is now - whatever assertions it has gathered - and then attached as a 'signed' assertion
                let sch = (st.arg(0) % 4) as u8;
                let id = (st.arg(1) % 3) as u8;
                let (sk, pk) = keys::signing(sch, id);
                let subj_digest = *s.env.subject().digest().data();
                let sig = match sk.sign_with_options(&subj_digest, keys::sig_options(sch)) {
                    Ok(x) => x,
                    Err(_) => continue,
                };
                let other_digest = *Envelope::new("another subject").digest().data();
                let sig_other = sk.sign_with_options(&other_digest, keys::sig_options(sch)).ok();
                let (_, pk_other) = keys::signing(sch, (id + 1) % 3);
                let env = s.env.clone();
                ctx.checked();
                match guarded(|| (env.is_verified_signature(&sig, &pk), env.verify_signature(&sig, &pk).is_ok(), env.is_verified_signature(&sig, &pk_other), sig_other.as_ref().map(|so| env.is_verified_signature(so, &pk)))) {
                    Ok((own, own_v, other_key, other_subject)) => {
                        if !own || !own_v {
                            ctx.violate("C09.table", format!("a signature by key ({},{}) over the subject digest is not reported as verified for the envelope (is_verified_signature {}, verify_signature {})", sch, id, own, own_v));
                        }
                        if other_key {
                            ctx.violate("C09.table", "is_verified_signature accepts a signature under another key".to_string());
                        }
                        if other_subject == Some(true) {
                            ctx.violate("C09.table", "is_verified_signature accepts a signature made over a different subject".to_string());
                        }
                    }
                    Err(p) => ctx.violate_sig("C16.no-panic", format!("is_verified_signature / verify_signature panicked: {}", p), p),
                }
                let note = if st.arg(2) % 2 == 0 { Some("countersigned copy") } else { None };
                // every third time the note is put on the signature object itself: 'signed': Signature ['note': ..]
                let decorated_object = st.arg(2) % 3 == 2;
                match guarded(|| if decorated_object { env.add_assertion_envelope(Envelope::new_assertion(known_values::SIGNED, Envelope::new(sig.clone()).add_assertion(known_values::NOTE, "kept with the signature"))) } else { env.add_assertion_envelope(env.make_signed_assertion(&sig, note)) }) {
                    Ok(Ok(e)) => {
                        s.env = e;
                        if !s.unknown.contains(&(sch, id)) {
                            s.valid.insert((sch, id));
                            s.signed.insert(((sch, id), subj_digest));
                        }
                        ctx.probe("detached-signature-attached");
                    }
                    Ok(Err(e)) => ctx.violate("C09.table", format!("a 'signed' assertion made by make_signed_assertion was refused: {}", e)),
                    Err(p) => ctx.violate_sig("C16.no-panic", format!("make_signed_assertion panicked: {}", p), p),
                }
                ctx.t(&format!("S.Detached {} {}", sch, id));
            }
            "S.Redact" => {
                // a holder obscures one whole 'signed' assertion in a copy; then either the redacted assertion is added
                // to the full envelope again (it is already there: nothing changes), or the original assertion is put
                // back into the redacted copy with replace_assertion (same digest). Every signature verifies as before.
                let signed_d = digest_of(&Envelope::new(known_values::SIGNED));
                let cands: Vec<Envelope> = s
                    .env
                    .assertions()
                    .into_iter()
                    .filter(|a| match a.subject().case() {
                        bc_envelope::base::envelope::EnvelopeCase::Assertion(x) => digest_of(&x.predicate()) == signed_d,
                        _ => false,
                    })
                    .collect();
                if cands.is_empty() {
                    continue;
                }
                let a = cands[(st.arg(0) % cands.len() as u64) as usize].clone();
                let act = obscure_action(match st.arg(1) % 3 {
                    0 => Obsc::Elided,
                    1 => Obsc::Encrypted(2),
                    _ => Obsc::Compressed,
                });
                let full = s.env.clone();
                // (obscuring works by digest: if the same assertion also occurs elsewhere - a deterministic signature
                // under another signer's metadata, say - the redaction reaches that copy too, which is another story)
                if hist::walk_digests(&full).iter().filter(|x| **x == digest_of(&a)).count() != 1 {
                    continue;
                }
                let res = guarded(|| -> Result<Envelope, String> {
                    let redacted_copy = full.elide_removing_target_with_action(&a, &act);
                    let hidden = redacted_copy.assertions().into_iter().find(|x| digest_of(x) == digest_of(&a)).ok_or("the obscured assertion is gone")?;
                    if st.arg(2) % 2 == 0 {
                        full.add_assertion_envelope(hidden).map_err(|e| e.to_string())
                    } else {
                        redacted_copy.replace_assertion(hidden, a.clone()).map_err(|e| e.to_string())
                    }
                });
                ctx.checked();
                match res {
                    Ok(Ok(e)) => {
                        if e.to_cbor_data() != full.to_cbor_data() {
                            ctx.violate("C09.table", format!("putting a 'signed' assertion next to / in place of its own obscured form (variant {}) did not give back the signed envelope", st.arg(2) % 2));
                        }
                        s.env = e;
                        ctx.probe("signed-assertion-redacted-and-restored");
                    }
                    Ok(Err(e)) => ctx.violate("C09.table", format!("restoring a redacted 'signed' assertion was refused: {}", e)),
                    Err(p) => ctx.violate_sig("C16.no-panic", format!("restoring a redacted 'signed' assertion panicked: {}", p), p),
                }
                ctx.t("S.Redact");
            }
            "S.AddOther" => {
                // an unrelated assertion: the subject digest is unchanged, so every signature stays valid
                s.env = s.env.add_assertion(format!("k{}", st.arg(0) % 5), st.arg(1) % 100);
                ctx.t("S.AddOther");
            }
            "S.ObscureSubject" => {
                // elide / encrypt / compress the subject: digest unchanged
                let subj = s.env.subject();
                let r = match st.arg(0) % 3 {
                    0 => Ok(s.env.elide_removing_target(&subj)),
                    1 => s.env.encrypt_subject(&sym_key((st.arg(1) % 4) as u32)),
                    _ => s.env.compress_subject(),
                };
                if let Ok(e) = r {
                    s.env = e;
                    ctx.probe("verify-after-subject-obscured");
                }
                ctx.t("S.ObscureSubject");
            }
            "S.ObscureOther" => {
                // obscure a non-signature assertion (whole, or its predicate / object)
                let signed_d = digest_of(&Envelope::new(known_values::SIGNED));
                let cands: Vec<Envelope> = s
                    .env
                    .assertions()
                    .into_iter()
                    .filter(|a| match a.subject().case() {
                        bc_envelope::base::envelope::EnvelopeCase::Assertion(x) => digest_of(&x.predicate()) != signed_d,
                        _ => false,
                    })
                    .collect();
                if cands.is_empty() {
                    continue;
                }
                let a = &cands[(st.arg(0) % cands.len() as u64) as usize];
                let act = obscure_action(match st.arg(1) % 3 {
                    0 => Obsc::Elided,
                    1 => Obsc::Encrypted(1),
                    _ => Obsc::Compressed,
                });
                s.env = s.env.elide_removing_target_with_action(a, &act);
                ctx.probe("verify-after-sibling-assertion-obscured");
                ctx.t("S.ObscureOther");
            }
            "S.ObscureSigObject" => {
                // obscure the *object* of one signer's 'signed' assertion: that signer's standing becomes
                // unknown to the model, every other signer must be unaffected (D6)
                let signed_d = digest_of(&Envelope::new(known_values::SIGNED));
                let cands: Vec<Envelope> = s
                    .env
                    .assertions()
                    .into_iter()
                    .filter_map(|a| match a.subject().case() {
                        bc_envelope::base::envelope::EnvelopeCase::Assertion(x) if digest_of(&x.predicate()) == signed_d && !x.object().is_obscured() => Some(x.object()),
                        _ => None,
                    })
                    .collect();
                if cands.is_empty() {
                    continue;
                }
                let o = &cands[(st.arg(0) % cands.len() as u64) as usize];
                // whose signature is it? find by verification with the raw verifier
                // whose signature is it? find by verification with the raw verifier, over every subject
                // digest that was ever signed in this run (the signature may currently be stale)
                let mut digests: BTreeSet<D> = s.signed.iter().map(|(_, d)| *d).collect();
                digests.insert(*s.env.subject().digest().data());
                let mut whose: Vec<(u8, u8)> = vec![];
                let sig = o.extract_subject::<Signature>().ok().or_else(|| o.unwrap_envelope().ok().and_then(|i| i.extract_subject::<Signature>().ok()));
                if let Some(sig) = sig {
                    for (sch, id) in universe(thorough) {
                        let (_, pk) = keys::signing(sch, id);
                        if digests.iter().any(|d| pk.verify(&sig, d)) {
                            whose.push((sch, id));
                        }
                    }
                }
                let act = obscure_action(match st.arg(1) % 3 {
                    0 => Obsc::Elided,
                    1 => Obsc::Encrypted(2),
                    _ => Obsc::Compressed,
                });
                s.env = s.env.elide_removing_target_with_action(o, &act);
                for k in whose {
                    s.valid.remove(&k);
                    s.signed.retain(|(kk, _)| *kk != k);
                    s.unknown.insert(k);
                }
                ctx.probe("sibling-signature-object-obscured");
                ctx.t("S.ObscureSigObject");
            }
            "S.ReplaceSubject" => {
                // a different subject: every earlier signature is now stale and must not verify
                let d = match w.idx(st.arg(0)) {
                    Some(d) => d,
                    None => continue,
                };
                let ns = w.docs[d].env.clone();
                if digest_of(&ns.subject()) == digest_of(&s.env.subject()) || ns.is_node() {
                    continue;
                }
                s.env = s.env.replace_subject(ns);
                // a stale signature-with-metadata (outer signature still good, inner one over the old
                // subject) is reported by the library as an error for whoever made it
                if !s.with_meta.is_empty() {
                    s.garbage = true;
                }
                // signatures are bound to a subject digest: those made over this very subject earlier count again
                let now = digest_of(&s.env.subject());
                s.valid = s.signed.iter().filter(|(_, d)| *d == now).map(|(k, _)| *k).collect();
                ctx.fault("subject.replaced");
                ctx.probe("stale-signature-on-other-subject");
                ctx.t("S.ReplaceSubject");
            }
            "S.Byzantine" => {
                ctx.fault("byzantine.sig");
                let sch = (st.arg(1) % keys::N_SIG_FAST as u64) as u8;
                let id = (st.arg(2) % 3) as u8;
                let (sk, _) = keys::signing(sch, id);
                let subj_digest = *s.env.subject().digest().data();
                match st.arg(0) % 5 {
                    0 => {
                        // a non-signature object under 'signed'
                        s.env = s.env.add_assertion(known_values::SIGNED, format!("not-a-signature-{}", st.arg(3) % 9));
                        s.garbage = true;
                        ctx.probe("byz-non-signature-object");
                    }
                    1 => {
                        // valid inner signature by K, metadata wrapper WITHOUT an outer signature
                        let sig = sk.sign_with_options(&subj_digest, keys::sig_options(sch)).unwrap();
                        let obj = Envelope::new(sig).add_assertion(known_values::NOTE, "forged-unsigned").wrap_envelope();
                        s.env = s.env.add_assertion(known_values::SIGNED, obj);
                        if !s.valid.contains(&(sch, id)) {
                            s.unknown.insert((sch, id));
                        }
                        ctx.probe("byz-unsigned-metadata-wrapper");
                    }
                    2 => {
                        // inner signature by K, wrapper signed by another key J
                        let jid = (id + 1) % 3;
                        let (jk, _) = keys::signing(sch, jid);
                        let sig = sk.sign_with_options(&subj_digest, keys::sig_options(sch)).unwrap();
                        let wrapped = Envelope::new(sig).add_assertion(known_values::NOTE, "forged-foreign").wrap_envelope();
                        let outer = jk.sign_with_options(&wrapped.digest().as_ref(), keys::sig_options(sch)).unwrap();
                        let obj = wrapped.add_assertion(known_values::SIGNED, outer);
                        s.env = s.env.add_assertion(known_values::SIGNED, obj);
                        if !s.valid.contains(&(sch, id)) {
                            s.unknown.insert((sch, id));
                        }
                        if !s.valid.contains(&(sch, jid)) {
                            s.unknown.insert((sch, jid));
                        }
                        // the library reports "inner signature not made with same key" as an error for J
                        s.garbage = true;
                        ctx.probe("byz-foreign-signed-metadata-wrapper");
                    }
                    3 => {
                        // valid inner signature by K, metadata wrapper whose outer 'signed' object is OBSCURED
                        // (elided / compressed / encrypted): nothing verifiable covers the metadata
                        let sig = sk.sign_with_options(&subj_digest, keys::sig_options(sch)).unwrap();
                        let wrapped = Envelope::new(sig).add_assertion(known_values::NOTE, "forged-obscured-outer").wrap_envelope();
                        let outer = sk.sign_with_options(&crate::model::sha(b"something else"), keys::sig_options(sch)).unwrap();
                        let outer_env = Envelope::new(outer);
                        let hidden = match st.arg(3) % 3 {
                            0 => outer_env.elide(),
                            1 => outer_env.compress().unwrap_or_else(|_| outer_env.elide()),
                            _ => outer_env.encrypt_subject(&sym_key(3)).unwrap_or_else(|_| outer_env.elide()),
                        };
                        let obj = wrapped.add_assertion(known_values::SIGNED, hidden);
                        s.env = s.env.add_assertion(known_values::SIGNED, obj);
                        if !s.valid.contains(&(sch, id)) {
                            s.unknown.insert((sch, id));
                        }
                        s.garbage = true;
                        ctx.probe("byz-obscured-outer-signature");
                    }
                    _ => {
                        // a signature by K over some OTHER digest
                        let other = crate::model::sha(&st.arg(3).to_le_bytes());
                        let sig = sk.sign_with_options(&other, keys::sig_options(sch)).unwrap();
                        s.env = s.env.add_assertion(known_values::SIGNED, sig);
                        ctx.probe("byz-signature-over-other-digest");
                    }
                }
                ctx.t("S.Byzantine");
            }
            "S.Check" => {
                check_sign_state(ctx, s, thorough, "S.Check");
                ctx.shape_mix(s.valid.len() as u64 * 31 + s.unknown.len() as u64);
            }
            "S.Threshold" => {
                // distinct keys from the universe; threshold 1..n+1 or None
                let uni = universe(thorough);
                let mut r = SimRng::new(st.arg(0));
                // (now and then the empty key list: no threshold of one or more can be met by it)
                let n = if st.arg(0) % 8 == 5 { 0 } else { r.range(1, 5) as usize };
                if n == 0 {
                    ctx.probe("empty-key-list");
                }
                let mut ks: Vec<(u8, u8)> = uni.clone();
                r.shuffle(&mut ks);
                ks.truncate(n);
                if ks.iter().any(|k| s.unknown.contains(k)) || s.garbage {
                    continue;
                }
                let pks: Vec<_> = ks.iter().map(|(a, b)| keys::signing(*a, *b).1).collect();
                let refs: Vec<&dyn Verifier> = pks.iter().map(|p| p as &dyn Verifier).collect();
                let count = ks.iter().filter(|k| s.valid.contains(k)).count();
                let env = match transmit(ctx, &s.env) {
                    Some(e) => e,
                    None => continue,
                };
                // (threshold 0 is outside the property's quantifier; it is exercised for panics by the C16 call shapes)
                for t in 1..=n + 1 {
                    ctx.checked();
                    match guarded(|| env.has_signatures_from_threshold(&refs, Some(t))) {
                        Ok(Ok(b)) => {
                            if b != (count >= t) {
                                ctx.violate("C09.threshold", format!("{} of {} listed keys signed; threshold {} reported {}", count, n, t, b));
                            }
                            if t == count {
                                ctx.probe("threshold-equals-count");
                            }
                            if t == count + 1 {
                                ctx.probe("threshold-count-plus-one");
                            }
                        }
                        Ok(Err(e)) => ctx.violate("C09.threshold", format!("threshold verification failed with an error: {}", e)),
                        Err(p) => ctx.violate_sig("C09.threshold", format!("threshold verification (threshold {}, {} of {} signed) panicked: {}", t, count, n, p), p),
                    }
                    let v = guarded(|| env.verify_signatures_from_threshold(&refs, Some(t)));
                    if let Ok(v) = v {
                        if v.is_ok() != (count >= t) {
                            ctx.violate("C09.threshold", format!("verify_signatures_from_threshold({}) disagrees: {} of {} signed", t, count, n));
                        }
                    }
                }
                if n == 0 {
                    // no threshold given and no keys listed is a threshold of zero: outside the property's quantifier
                    ctx.t("S.Threshold n=0");
                    continue;
                }
                ctx.checked();
                match guarded(|| env.has_signatures_from(&refs)) {
                    Ok(Ok(b)) => {
                        if b != (count == n) {
                            ctx.violate("C09.threshold", format!("no threshold given: {} of {} listed keys signed but has_signatures_from reported {}", count, n, b));
                        }
                    }
                    Ok(Err(e)) => ctx.violate("C09.threshold", format!("has_signatures_from failed: {}", e)),
                    Err(p) => ctx.violate_sig("C16.no-panic", format!("has_signatures_from panicked: {}", p), p),
                }
                // the same without a threshold, in the form that returns the envelope
                match guarded(|| env.verify_signatures_from(&refs).is_ok()) {
                    Ok(ok) => {
                        if ok != (count == n) {
                            ctx.violate("C09.threshold", format!("no threshold given: {} of {} listed keys signed but verify_signatures_from {}", count, n, if ok { "succeeded" } else { "failed" }));
                        }
                    }
                    Err(p) => ctx.violate_sig("C16.no-panic", format!("verify_signatures_from panicked: {}", p), p),
                }
                ctx.t(&format!("S.Threshold n={} count={}", n, count));
            }
            "S.Metadata" => {
                let env = match transmit(ctx, &s.env) {
                    Some(e) => e,
                    None => continue,
                };
                for (sch, id) in universe(thorough) {
                    let (_, pk) = keys::signing(sch, id);
                    ctx.checked();
                    match guarded(|| env.verify_signature_from_returning_metadata(&pk)) {
                        Ok(Ok(m)) => {
                            // m is either a bare signature (no metadata) or a signature with metadata assertions
                            let bare = !m.has_assertions();
                            let subj_digest = *env.subject().digest().data();
                            let inner_ok = m.extract_subject::<Signature>().map(|sig| pk.verify(&sig, &subj_digest)).unwrap_or(false);
                            if !inner_ok {
                                ctx.violate("C09.metadata", format!("metadata returned for ({},{}) whose signature does not verify over the subject", sch, id));
                            }
                            if !bare && !covered_by_outer_signature(&env, &m, &pk) {
                                ctx.violate("C09.metadata", format!("metadata returned for ({},{}) is not covered by an outer signature from the same key", sch, id));
                            }
                            if !bare {
                                ctx.probe("metadata-returned");
                            }
                            if !s.valid.contains(&(sch, id)) && !s.unknown.contains(&(sch, id)) {
                                ctx.violate("C09.table", format!("verify_signature_from_returning_metadata succeeded for non-signer ({},{})", sch, id));
                            }
                        }
                        Ok(Err(_)) => {
                            if s.valid.contains(&(sch, id)) && !s.garbage {
                                ctx.violate("C09.metadata", format!("verify_signature_from_returning_metadata failed for valid signer ({},{})", sch, id));
                            }
                        }
                        Err(p) => ctx.violate_sig("C16.no-panic", format!("verify_signature_from_returning_metadata panicked: {}", p), p),
                    }
                    // the Option-returning form agrees with it
                    if let (Ok(Ok(opt)), Ok(res)) = (guarded(|| env.has_signature_from_returning_metadata(&pk)), guarded(|| env.verify_signature_from_returning_metadata(&pk))) {
                        let same = match (&opt, &res) {
                            (Some(a), Ok(b)) => ident(a, b),
                            (None, Err(_)) => true,
                            _ => false,
                        };
                        if !same {
                            ctx.violate("C09.metadata", format!("has_signature_from_returning_metadata and verify_signature_from_returning_metadata disagree for ({},{})", sch, id));
                        }
                    }
                }
                ctx.t("S.Metadata");
            }
            "S.SignVerify" => {
                // the wrapping convenience forms
                let sch = (st.arg(0) % nsch) as u8;
                let (sk, pk) = keys::signing(sch, (st.arg(1) % 3) as u8);
                let (_, other) = keys::signing(sch, ((st.arg(1) + 1) % 3) as u8);
                let orig = s.env.clone();
                if let Ok(signed) = guarded(|| orig.sign_opt(&sk, keys::sig_options(sch))) {
                    ctx.checked();
                    if let Some(rx) = transmit(ctx, &signed) {
                        match guarded(|| rx.verify(&pk)) {
                            Ok(Ok(x)) => {
                                if !ident(&x, &orig) {
                                    ctx.violate("C09.sign-verify", "verify() returned something other than the signed envelope".to_string());
                                }
                            }
                            Ok(Err(e)) => {
                                let signed_digest = *orig.wrap_envelope().digest().data();
                                if ssh_ecdsa_primitive_fails(sch, (st.arg(1) % 3) as u8, &signed_digest) {
                                    ctx.violate_sig("C09.table", format!("verify() with the matching key failed ({}): the SSH ECDSA primitive mis-encodes the signature over this digest", e), "ssh-key-ecdsa-signature-encoding".to_string());
                                } else {
                                    ctx.violate("C09.sign-verify", format!("verify() with the matching key failed: {}", e));
                                }
                            }
                            Err(p) => ctx.violate_sig("C16.no-panic", format!("verify panicked: {}", p), p),
                        }
                        ctx.fault("key.wrong");
                        if let Ok(Ok(_)) = guarded(|| rx.verify(&other)) {
                            ctx.violate("C09.sign-verify", "verify() succeeded with another key".to_string());
                        }
                    }
                }
                ctx.t("S.SignVerify");
            }
            _ => {}
        }
        if ctx.failed() && ctx.stop_at_first {
            break;
        }
    }
}

fn ds(r: &mut SimRng) -> u64 {
    if r.chance(2, 3) {
        r.below(3)
    } else {
        r.below(12)
    }
}

pub fn generate_sign(property: &str, r: &mut SimRng, seed: u64) -> Scenario {
    let mut scn = hist::generate(property, r, seed);
    scn.family = "sign".to_string();
    let keep = r.range(2, 8) as usize;
    scn.steps.truncate(keep.max(2));
    scn.push("S.Start", &[ds(r)]);
    let n = r.range(2, 12);
    let byz = r.chance(1, 3);
    for _ in 0..n {
        match r.below(20) {
            0..=3 => scn.push("S.Sign", &[r.below(16), r.below(3), r.below(9)]),
            4 => scn.push("S.SignBatch", &[r.next(), r.below(4)]),
            5 => scn.push("S.Detached", &[r.below(4), r.below(3), r.below(6)]),
            6 => {
                if r.chance(1, 2) {
                    scn.push("S.AddOther", &[r.below(5), r.below(100)])
                } else {
                    scn.push("S.Redact", &[r.below(8), r.below(3), r.below(2)])
                }
            }
            7..=8 => scn.push("S.ObscureSubject", &[r.below(3), r.below(4)]),
            9 => scn.push("S.ObscureOther", &[r.below(8), r.below(3)]),
            10 => scn.push("S.ObscureSigObject", &[r.below(8), r.below(3)]),
            11 => scn.push("S.ReplaceSubject", &[ds(r)]),
            12..=13 => {
                if byz {
                    scn.push("S.Byzantine", &[r.below(5), r.below(3), r.below(3), r.next() % 1000])
                } else {
                    scn.push("S.Sign", &[r.below(16), r.below(3), r.below(9)])
                }
            }
            14..=15 => scn.push("S.Check", &[]),
            16..=17 => scn.push("S.Threshold", &[r.next()]),
            18 => scn.push("S.Metadata", &[]),
            _ => scn.push("S.SignVerify", &[r.below(16), r.below(3)]),
        }
    }
    scn.push("S.Check", &[]);
    scn.push("S.Metadata", &[]);
    scn.push("S.Threshold", &[r.next()]);
    scn
}

// ======================================================================================
// C10 recipients

pub fn run_recip(scn: &Scenario, ctx: &mut Ctx) {
    let thorough = scn.cfg("thorough", 0) == 1;
    let mut w = World::new(scn.cfg("leafdom", crate::gen::DOM_ALL));
    for (i, st) in scn.steps.iter().enumerate() {
        ctx.step = i;
        ctx.sim_ticks += 1;
        let op = st.op.as_str();
        if !op.starts_with("R.") {
            if !matches!(hist::exec_step(&mut w, ctx, st), StepResult::Skipped) {
                ctx.executed += 1;
            }
            continue;
        }
        let d = match w.idx(st.arg(0)) {
            Some(d) => d,
            None => continue,
        };
        ctx.executed += 1;
        let orig = w.docs[d].env.clone();
        let om = w.docs[d].m.clone();
        if has_pred(&orig, known_values::HAS_RECIPIENT) {
            // a pre-existing (possibly malformed) hasRecipient assertion: outcome not fixed by the property
            continue;
        }
        // recipient list: ids 0..5 by 3-bit fields, duplicates allowed
        let nrec = 1 + (st.arg(1) % 5) as usize;
        // key-encapsulation scheme of each party id: all X25519, all ML-KEM-512 (thorough), or MIXED
        // (X25519, ML-KEM-512 and ML-KEM-768 keys in one recipient list)
        let mode = st.arg(3) % 8;
        let _ = thorough;
        let scheme_of = move |id: u8| -> u8 {
            match mode {
                1 => keys::ENC_MLKEM512,
                2 | 3 => [keys::ENC_X25519, keys::ENC_MLKEM512, keys::ENC_MLKEM768][(id % 3) as usize],
                _ => keys::ENC_X25519,
            }
        };
        if mode >= 1 && mode <= 3 {
            // ML-KEM encapsulation draws from the OS: nothing derived from it may enter the trace
            ctx.fenced = true;
            ctx.probe("ml-kem-recipient");
        }
        if mode == 2 || mode == 3 {
            ctx.probe("mixed-encapsulation-schemes");
        }
        let scheme = keys::ENC_X25519;
        let _ = scheme;
        let ids: Vec<u8> = (0..nrec).map(|k| ((st.arg(2) >> (3 * k)) % 6) as u8).collect();
        let listed: BTreeSet<u8> = ids.iter().cloned().collect();
        let pks: Vec<_> = ids.iter().map(|id| keys::encap(scheme_of(*id), *id).1).collect();
        let refs: Vec<&dyn bc_envelope::Encrypter> = pks.iter().map(|p| p as &dyn bc_envelope::Encrypter).collect();
        if ids.len() != listed.len() {
            ctx.probe("duplicate-recipient");
        }
        if listed.len() >= 3 {
            ctx.probe("three-or-more-recipients");
        }
        match op {
            "R.Subject" | "R.Whole" => {
                let whole = op == "R.Whole";
                // only an elided or already encrypted subject cannot be encrypted; a compressed one can
                if !whole && matches!(om.subject().obsc(), Obsc::Encrypted(_)) && orig.subject().is_encrypted() {
                    // a subject that is already encrypted (with a key the sender may not even hold): the call either
                    // refuses, or returns something every listed recipient can open - never an envelope that lists
                    // recipients none of whom can
                    ctx.checked();
                    match guarded(|| orig.encrypt_subject_to_recipients(&refs)) {
                        Ok(Ok(enc)) => {
                            for id in &listed {
                                let (sk, _) = keys::encap(scheme_of(*id), *id);
                                if !matches!(guarded(|| enc.decrypt_subject_to_recipient(&sk)), Ok(Ok(_))) {
                                    ctx.violate("C10.listed", format!("encrypt_subject_to_recipients accepted an already encrypted subject, but listed recipient {} cannot open the result", id));
                                    break;
                                }
                            }
                        }
                        Ok(Err(_)) => ctx.probe("already-encrypted-subject-refused"),
                        Err(p) => ctx.violate_sig("C16.no-panic", format!("encrypt_subject_to_recipients panicked on an already encrypted subject: {}", p), p),
                    }
                    continue;
                }
                if !whole && matches!(om.subject().obsc(), Obsc::Elided | Obsc::Encrypted(_) | Obsc::Some) {
                    continue;
                }
                // sometimes the original is first brought into a rarer shape: a subject that is itself a node
                // (compress whole, add an assertion, uncompress the subject), or a compressed subject
                let orig = match (st.arg(3) >> 4) % 6 {
                    0 if om.is_node() => match orig.compress().map(|c| c.add_assertion("outer", 1)).and_then(|c| c.uncompress_subject()) {
                        Ok(e) => {
                            ctx.probe("subject-is-a-node");
                            e
                        }
                        Err(_) => orig.clone(),
                    },
                    1 if om.is_node() && om.subject().obsc().is_clear() => match orig.compress_subject() {
                        Ok(e) => {
                            ctx.probe("compressed-subject-with-assertions");
                            e
                        }
                        Err(_) => orig.clone(),
                    },
                    // a former recipient that was hidden: a 'hasRecipient' assertion whose object is elided
                    // (or encrypted / compressed) is already there when the envelope is encrypted to the list
                    2 if !whole => {
                        let former = Envelope::new(dcbor::ByteString::from(vec![7u8; 40]));
                        let hidden = match (st.arg(3) >> 8) % 3 {
                            0 => former.elide(),
                            1 => former.encrypt_subject(&sym_key(3)).unwrap_or_else(|_| former.elide()),
                            _ => former.compress().unwrap_or_else(|_| former.elide()),
                        };
                        ctx.probe("hidden-former-recipient");
                        orig.add_assertion(known_values::HAS_RECIPIENT, hidden)
                    }
                    _ => orig.clone(),
                };
                let base = if whole { orig.wrap_envelope() } else { orig.clone() };
                if matches!(om.kind(), MKind::Wrapped(_)) && om.obsc().is_clear() && whole {
                    ctx.probe("whole-form-of-a-wrapped-original");
                }
                let enc = match guarded(|| if whole && refs.len() == 1 { Ok(orig.encrypt_to_recipient(refs[0])) } else { base.encrypt_subject_to_recipients(&refs) }) {
                    Ok(Ok(e)) => e,
                    Ok(Err(e)) => {
                        ctx.checked();
                        ctx.violate("C10.encrypt", format!("encrypt_subject_to_recipients refused a clear subject: {}", e));
                        continue;
                    }
                    Err(p) => {
                        ctx.violate_sig("C16.no-panic", format!("encrypt_subject_to_recipients panicked: {}", p), p);
                        continue;
                    }
                };
                ctx.checked();
                if digest_of(&enc.subject()) != digest_of(&base.subject()) {
                    ctx.violate("C10.digest", "the encrypted subject does not keep the original subject's digest".to_string());
                }
                if !enc.is_subject_encrypted() {
                    ctx.violate("C10.encrypt", "subject is not encrypted after encrypt_subject_to_recipients".to_string());
                }
                let delivered = match transmit(ctx, &enc) {
                    Some(e) => e,
                    None => {
                        ctx.violate("C10.transport", "encrypted envelope does not decode".to_string());
                        continue;
                    }
                };
                // a holder may have elided the 'hasRecipient' predicate itself (the assertions are then found by its
                // digest): everything below holds for that copy just the same
                let delivered = if (st.arg(3) >> 10) % 4 == 1 && !om.digest_set().contains(&digest_of(&Envelope::new(known_values::HAS_RECIPIENT))) {
                    ctx.probe("recipient-predicate-obscured");
                    match transmit(ctx, &delivered.elide_removing_target(&Envelope::new(known_values::HAS_RECIPIENT))) {
                        Some(x) => x,
                        None => delivered,
                    }
                } else {
                    delivered
                };
                for id in 0..6u8 {
                    let (sk, _) = keys::encap(scheme_of(id), id);
                    ctx.checked();
                    let r = guarded(|| if whole { delivered.decrypt_to_recipient(&sk) } else { delivered.decrypt_subject_to_recipient(&sk) });
                    match (r, listed.contains(&id)) {
                        (Ok(Ok(x)), true) => {
                            let ok = if whole { ident(&x, &orig) } else { ident(&x.subject(), &orig.subject()) && digest_of(&x) == digest_of(&enc) };
                            if !ok {
                                ctx.violate("C10.listed", format!("listed recipient {} decrypted something other than the original", id));
                            }
                        }
                        (Ok(Err(e)), true) => ctx.violate("C10.listed", format!("listed recipient {} of {:?} cannot decrypt: {}", id, ids, e)),
                        (Ok(Ok(_)), false) => ctx.violate("C10.unlisted", format!("unlisted private key {} decrypted the envelope", id)),
                        (Ok(Err(_)), false) => {
                            ctx.fault("key.wrong");
                        }
                        (Err(p), true) => ctx.violate_sig("C10.listed", format!("listed recipient {} of {:?} cannot decrypt: decrypt_to_recipient panicked: {}", id, ids, p), p),
                        (Err(p), false) => ctx.violate_sig("C10.unlisted", format!("an unlisted private key ({}) got a panic instead of an error: {}", id, p), p),
                    }
                }
                ctx.t(&format!("{} recipients={:?}", op, ids));
                ctx.shape_mix(om.shape_hash() ^ (ids.len() as u64));
            }
            "R.Late" => {
                // explicit content key; a recipient is added later; earlier recipients still succeed
                if om.subject().is_obscured() {
                    continue;
                }
                let ck = sym_key((st.arg(3) % 4) as u32);
                let e0 = match guarded(|| orig.encrypt_subject(&ck)) {
                    Ok(Ok(e)) => e,
                    _ => continue,
                };
                let mut e = e0;
                for pk in &pks {
                    e = e.add_recipient(pk, &ck);
                }
                let first = match transmit(ctx, &e) {
                    Some(x) => x,
                    None => continue,
                };
                let late_id = ((st.arg(2) >> 20) % 6) as u8;
                let (_, late_pk) = keys::encap(scheme_of(late_id), late_id);
                let e2 = if (st.arg(3) >> 3) % 3 == 1 {
                    // the owner opens the subject with the content key, adds the recipient while the subject is in the
                    // clear, and encrypts again with the same content key
                    ctx.probe("recipient-added-while-subject-in-the-clear");
                    match guarded(|| first.decrypt_subject(&ck).map(|open| open.add_recipient(&late_pk, &ck)).and_then(|x| x.encrypt_subject(&ck))) {
                        Ok(Ok(x)) => x,
                        _ => continue,
                    }
                } else {
                    first.add_recipient(&late_pk, &ck)
                };
                ctx.probe("recipient-added-later");
                let second = match transmit(ctx, &e2) {
                    Some(x) => x,
                    None => continue,
                };
                let mut all = listed.clone();
                all.insert(late_id);
                for id in 0..6u8 {
                    let (sk, _) = keys::encap(scheme_of(id), id);
                    ctx.checked();
                    match (guarded(|| second.decrypt_subject_to_recipient(&sk)), all.contains(&id)) {
                        (Ok(Ok(x)), true) => {
                            if !ident(&x.subject(), &orig.subject()) {
                                ctx.violate("C10.listed", format!("recipient {} decrypted something other than the original subject after a recipient was added", id));
                            }
                        }
                        (Ok(Err(e)), true) => ctx.violate("C10.late", format!("recipient {} can no longer decrypt after a recipient was added: {}", id, e)),
                        (Ok(Ok(_)), false) => ctx.violate("C10.unlisted", format!("unlisted private key {} decrypted the envelope", id)),
                        (Ok(Err(_)), false) => ctx.fault("key.wrong"),
                        (Err(p), true) => ctx.violate_sig("C10.late", format!("recipient {} cannot decrypt after a recipient was added: panic: {}", id, p), p),
                        (Err(p), false) => ctx.violate_sig("C10.unlisted", format!("an unlisted private key ({}) got a panic instead of an error: {}", id, p), p),
                    }
                }
                ctx.t(&format!("R.Late {:?}+{}", ids, late_id));
            }
            "R.Seal" => {
                // sender schemes: Schnorr, ECDSA, Ed25519 and the SSH variants (SSH keys need signing options)
                let ssch = (st.arg(3) % if thorough { keys::N_SIG_DET as u64 } else { 6 }) as u8;
                if keys::is_ssh(ssch) {
                    ctx.probe("seal-with-ssh-sender");
                }
                let sid = ((st.arg(3) >> 4) % 3) as u8;
                let (ssk, spk) = keys::signing(ssch, sid);
                let rid = ids[0];
                let (rsk, rpk) = keys::encap(scheme_of(rid), rid);
                let sealed = match guarded(|| orig.seal_opt(&ssk, &rpk, keys::sig_options(ssch))) {
                    Ok(e) => e,
                    Err(p) => {
                        ctx.checked();
                        ctx.violate_sig("C10.seal", format!("seal_opt with sender scheme {} panicked instead of returning a sealed envelope: {}", ssch, p), p);
                        continue;
                    }
                };
                let delivered = match transmit(ctx, &sealed) {
                    Some(e) => e,
                    None => continue,
                };
                ctx.checked();
                match guarded(|| delivered.unseal(&spk, &rsk)) {
                    Ok(Ok(x)) => {
                        if !ident(&x, &orig) {
                            ctx.violate("C10.seal", "unseal returned something other than the original".to_string());
                        }
                    }
                    Ok(Err(e)) => {
                        // the sender's signature covers the digest of the wrapped original
                        let signed_digest = *orig.wrap_envelope().digest().data();
                        if ssh_ecdsa_primitive_fails(ssch, sid, &signed_digest) {
                            ctx.violate_sig("C10.seal", format!("unseal with the right keys failed ({}): the SSH ECDSA signature primitive mis-encodes the signature over this digest", e), "ssh-key-ecdsa-signature-encoding".to_string());
                        } else {
                            ctx.violate("C10.seal", format!("unseal with the right keys failed: {}", e));
                        }
                    }
                    Err(p) => ctx.violate_sig("C10.seal", format!("unseal panicked: {}", p), p),
                }
                let (_, wrong_spk) = keys::signing(ssch, (sid + 1) % 3);
                let (wrong_rsk, _) = keys::encap(scheme_of((rid + 1) % 6), (rid + 1) % 6);
                ctx.fault("key.wrong");
                if let Ok(Ok(_)) = guarded(|| delivered.unseal(&wrong_spk, &rsk)) {
                    ctx.violate("C10.seal", "unseal succeeded with a wrong sender key".to_string());
                }
                if let Ok(Ok(_)) = guarded(|| delivered.unseal(&spk, &wrong_rsk)) {
                    ctx.violate("C10.seal", "unseal succeeded with a wrong recipient key".to_string());
                }
                // misrouted: another party's sealed envelope
                ctx.fault("net.misroute");
                let other_sealed = orig.add_assertion("x", 1).seal_opt(&ssk, &keys::encap(scheme_of((rid + 2) % 6), (rid + 2) % 6).1, keys::sig_options(ssch));
                if let Ok(Ok(_)) = guarded(|| other_sealed.unseal(&spk, &rsk)) {
                    ctx.violate("C10.unlisted", "a party opened a sealed envelope addressed to someone else".to_string());
                }
                ctx.t(&format!("R.Seal s=({},{}) r={}", ssch, sid, rid));
            }
            "R.Salted" => {
                // hasRecipient assertions that carry their own (salt) assertion: never a wrong plaintext
                if om.subject().is_obscured() {
                    continue;
                }
                let enc = match guarded(|| orig.encrypt_subject_to_recipients(&refs)) {
                    Ok(Ok(e)) => e,
                    _ => continue,
                };
                let mut e = enc.clone();
                for a in enc.assertions_with_predicate(known_values::HAS_RECIPIENT) {
                    let salted = a.add_salt();
                    if let Ok(x) = e.replace_assertion(a, salted) {
                        e = x;
                    }
                }
                ctx.probe("salted-hasRecipient");
                let delivered = match transmit(ctx, &e) {
                    Some(x) => x,
                    None => continue,
                };
                let (sk, _) = keys::encap(scheme_of(ids[0]), ids[0]);
                ctx.checked();
                match guarded(|| delivered.decrypt_subject_to_recipient(&sk)) {
                    Ok(Ok(x)) => {
                        if !ident(&x.subject(), &orig.subject()) {
                            ctx.violate("C10.listed", "decryption through a salted hasRecipient assertion returned another subject".to_string());
                        }
                    }
                    Ok(Err(_)) => {}
                    Err(p) => ctx.violate_sig("C16.no-panic", format!("decrypt_subject_to_recipient panicked on salted hasRecipient: {}", p), p),
                }
            }
            _ => {}
        }
        if ctx.failed() && ctx.stop_at_first {
            break;
        }
    }
}

pub fn generate_recip(property: &str, r: &mut SimRng, seed: u64) -> Scenario {
    let mut scn = hist::generate(property, r, seed);
    scn.family = "recip".to_string();
    let keep = r.range(2, 8) as usize;
    scn.steps.truncate(keep.max(2));
    let n = r.range(1, 4);
    for _ in 0..n {
        let op = *r.pick(&["R.Subject", "R.Subject", "R.Whole", "R.Late", "R.Seal", "R.Salted"]);
        scn.push(op, &[ds(r), r.below(5), r.next() % (1 << 24), r.next() % 4096]);
    }
    scn
}

// ======================================================================================
// C11 SSKR

fn policy_met(groups: &[(usize, usize)], group_threshold: usize, subset: &[(usize, usize)]) -> bool {
    // groups: (member threshold, member count); subset: (group index, member index)
    let mut per: BTreeMap<usize, BTreeSet<usize>> = BTreeMap::new();
    for (g, m) in subset {
        per.entry(*g).or_default().insert(*m);
    }
    let ok_groups = per.iter().filter(|(g, ms)| ms.len() >= groups[**g].0).count();
    ok_groups >= group_threshold
}

struct ExtremeRng {
    head: Vec<u64>,
    i: usize,
    tail: SimRng,
}
impl rand::RngCore for ExtremeRng {
    fn next_u32(&mut self) -> u32 {
        self.next_u64() as u32
    }
    fn next_u64(&mut self) -> u64 {
        if self.i < self.head.len() {
            self.i += 1;
            self.head[self.i - 1]
        } else {
            self.tail.next()
        }
    }
    fn fill_bytes(&mut self, dest: &mut [u8]) {
        for chunk in dest.chunks_mut(8) {
            let w = self.next_u64().to_le_bytes();
            chunk.copy_from_slice(&w[..chunk.len()]);
        }
    }
    fn try_fill_bytes(&mut self, dest: &mut [u8]) -> Result<(), rand::Error> {
        self.fill_bytes(dest);
        Ok(())
    }
}
impl rand::CryptoRng for ExtremeRng {}
impl bc_rand::RandomNumberGenerator for ExtremeRng {}

pub fn run_sskr(scn: &Scenario, ctx: &mut Ctx) {
    let mut w = World::new(scn.cfg("leafdom", crate::gen::DOM_ALL));
    for (i, st) in scn.steps.iter().enumerate() {
        ctx.step = i;
        ctx.sim_ticks += 1;
        let op = st.op.as_str();
        if !op.starts_with("K.") {
            if !matches!(hist::exec_step(&mut w, ctx, st), StepResult::Skipped) {
                ctx.executed += 1;
            }
            continue;
        }
        let d = match w.idx(st.arg(0)) {
            Some(d) => d,
            None => continue,
        };
        let orig = w.docs[d].env.clone();
        let om = w.docs[d].m.clone();
        if om.subject().is_obscured() || has_pred(&orig, known_values::SSKR_SHARE) {
            continue;
        }
        ctx.executed += 1;
        // policy from a1: up to `maxg` groups x `maxm` members
        let maxg = scn.cfg("maxgroups", 3);
        let maxm = scn.cfg("maxmembers", 4);
        let mut pr = SimRng::new(st.arg(1));
        // now and then a policy with many groups (SSKR allows sixteen), one or two members each
        let many = pr.chance(1, 10);
        let ng = if many { pr.range(9, 14) as usize } else { pr.range(1, maxg) as usize };
        if many {
            ctx.probe("nine-or-more-groups");
        }
        let mut groups: Vec<(usize, usize)> = vec![];
        for _ in 0..ng {
            let count = if many { pr.range(1, 2) as usize } else { pr.range(1, maxm) as usize };
            let thr = if count == 1 { 1 } else { pr.range(2, count as u64) as usize };
            groups.push((thr, count));
        }
        let gt = pr.range(1, ng as u64) as usize;
        let specs: Vec<SSKRGroupSpec> = match groups.iter().map(|(t, c)| SSKRGroupSpec::new(*t, *c)).collect::<Result<Vec<_>, _>>() {
            Ok(s) => s,
            Err(_) => continue,
        };
        let spec = match SSKRSpec::new(gt, specs) {
            Ok(s) => s,
            Err(_) => continue,
        };
        let total: usize = groups.iter().map(|g| g.1).sum();
        let ck = sym_key((st.arg(2) % 4) as u32);
        let wrap = st.arg(2) % 8 >= 4;
        let in_place = st.arg(2) % 16 >= 12 && !om.is_obscured();
        let base = if wrap && !in_place { orig.wrap_envelope() } else { orig.clone() };
        let enc = if in_place {
            // the whole envelope encrypted in place by the obscuring API: the encrypted element stands for a
            // complete envelope (possibly a node); "the original decrypted subject" is then that whole envelope
            ctx.probe("whole-envelope-encrypted-in-place");
            match guarded(|| base.elide_removing_target_with_action(&base, &ObscureAction::Encrypt(ck.clone()))) {
                Ok(e) if e.is_encrypted() => e,
                _ => continue,
            }
        } else {
            match guarded(|| base.encrypt_subject(&ck)) {
                Ok(Ok(e)) => e,
                _ => continue,
            }
        };
        let split = if op == "K.Extreme" {
            ctx.fault("rng.extreme");
            let heads: [&[u64]; 5] = [&[0], &[u64::MAX], &[1 << 63, 0], &[0xffff, 0xffff_0000], &[1]];
            let mut rng = ExtremeRng { head: heads[(st.arg(3) % 5) as usize].to_vec(), i: 0, tail: SimRng::new(st.arg(3) ^ 0x5eed) };
            guarded(|| enc.sskr_split_using(&spec, &ck, &mut rng))
        } else {
            guarded(|| enc.sskr_split(&spec, &ck))
        };
        let shares = match split {
            Ok(Ok(s)) => s,
            Ok(Err(e)) => {
                ctx.checked();
                ctx.violate("C11.split", format!("sskr_split failed for a valid policy {:?}/{}: {}", groups, gt, e));
                continue;
            }
            Err(p) => {
                ctx.violate_sig("C11.no-panic", format!("sskr_split panicked: {}", p), p);
                continue;
            }
        };
        // shape of the result and digest-preserving encrypted subject
        ctx.checked();
        if shares.len() != ng || shares.iter().zip(groups.iter()).any(|(s, g)| s.len() != g.1) {
            ctx.violate("C11.split", "sskr_split did not return one share envelope per member".to_string());
            continue;
        }
        let mut flat: Vec<((usize, usize), Envelope)> = vec![];
        for (gi, g) in shares.iter().enumerate() {
            for (mi, e) in g.iter().enumerate() {
                let want_subject_digest = if in_place { digest_of(&base) } else { digest_of(&base.subject()) };
                if digest_of(&e.subject()) != want_subject_digest || !e.is_subject_encrypted() {
                    ctx.violate("C11.share-subject", "a share envelope does not carry the digest-preserving encrypted subject of the original".to_string());
                }
                // custodian round trip through the network (now and then a custodian elides the 'sskrShare' predicate:
                // the share assertion is still found by the predicate's digest)
                let kept = if (st.arg(2) >> 4) % 4 == 1 && !om.digest_set().contains(&digest_of(&Envelope::new(known_values::SSKR_SHARE))) {
                    ctx.probe("share-predicate-obscured");
                    e.elide_removing_target(&Envelope::new(known_values::SSKR_SHARE))
                } else {
                    e.clone()
                };
                let e = &kept;
                match transmit(ctx, e) {
                    Some(x) => flat.push(((gi, mi), x)),
                    None => ctx.violate("C11.transport", "a share envelope does not survive encode/decode".to_string()),
                }
            }
        }
        let expected_subject = if in_place { base.clone() } else { base.subject() };
        // the empty subset (every message lost): an error, never a panic
        ctx.checked();
        ctx.fault("net.drop");
        match guarded(|| Envelope::sskr_join(&[])) {
            Ok(Ok(_)) => ctx.violate("C11.iff", "joining no share envelopes at all returned an envelope".to_string()),
            Ok(Err(_)) => ctx.probe("empty-subset-refused"),
            Err(p) => ctx.violate_sig("C11.no-panic", format!("sskr_join of the empty subset panicked: {}", p), p),
        }
        let join_check = |ctx: &mut Ctx, subset: &[usize], strict: bool, what: &str, flat: &Vec<((usize, usize), Envelope)>, extra: &[Envelope]| {
            let mut envs: Vec<&Envelope> = subset.iter().map(|i| &flat[*i].1).collect();
            for x in extra {
                envs.push(x);
            }
            if envs.is_empty() {
                return;
            }
            let idxs: Vec<(usize, usize)> = subset.iter().map(|i| flat[*i].0).collect();
            let met = policy_met(&groups, gt, &idxs);
            ctx.checked();
            match guarded(|| Envelope::sskr_join(&envs)) {
                Ok(Ok(x)) => {
                    if !ident(&x, &expected_subject) {
                        ctx.violate("C11.never-wrong", format!("{}: join returned an envelope that is not the original decrypted subject", what));
                    } else if strict && !met && extra.is_empty() {
                        ctx.violate("C11.iff", format!("{}: join succeeded although the subset {:?} does not satisfy the policy {:?}/{}", what, idxs, groups, gt));
                    }
                }
                Ok(Err(_)) => {
                    if strict && met {
                        ctx.violate("C11.iff", format!("{}: join failed although the subset {:?} satisfies the policy {:?}/{}", what, idxs, groups, gt));
                    }
                }
                Err(p) => ctx.violate_sig("C11.no-panic", format!("{}: sskr_join panicked: {}", what, p), p),
            }
        };
        match op {
            "K.Subsets" | "K.Extreme" => {
                // net.drop decides which subset arrives: all subsets when small, else sampled
                let n = flat.len();
                if n <= 8 || (scn.cfg("thorough", 0) == 1 && n <= 12) {
                    for mask in 1u32..(1u32 << n) {
                        let subset: Vec<usize> = (0..n).filter(|i| mask & (1 << i) != 0).collect();
                        ctx.fault("net.drop");
                        join_check(ctx, &subset, true, "subset", &flat, &[]);
                        if ctx.failed() {
                            break;
                        }
                    }
                    ctx.probe("all-subsets-enumerated");
                } else {
                    let mut r = SimRng::new(st.arg(3));
                    for _ in 0..64 {
                        let mask = r.next();
                        let subset: Vec<usize> = (0..n).filter(|i| mask & (1 << i) != 0).collect();
                        ctx.fault("net.drop");
                        join_check(ctx, &subset, true, "subset", &flat, &[]);
                    }
                }
                if groups.iter().any(|g| g.1 == 1) {
                    ctx.probe("single-member-group");
                }
                if total == flat.len() {
                    ctx.probe("all-shares");
                }
            }
            "K.Dup" => {
                // duplicated deliveries: relaxed form only (never a wrong envelope, never a panic)
                let mut r = SimRng::new(st.arg(3));
                for _ in 0..16 {
                    let mut subset: Vec<usize> = (0..flat.len()).filter(|_| r.chance(1, 2)).collect();
                    if subset.is_empty() {
                        continue;
                    }
                    let dup = subset[r.below(subset.len() as u64) as usize];
                    subset.push(dup);
                    if r.chance(1, 2) {
                        subset.push(dup);
                    }
                    r.shuffle(&mut subset);
                    ctx.fault("net.dup");
                    join_check(ctx, &subset, false, "with duplicates", &flat, &[]);
                }
                ctx.probe("duplicate-share");
            }
            "K.Resplit" => {
                // a custodian splits the share envelope it holds once more (same content key, its own policy) and
                // hands the pieces on: each piece carries the old share assertion as well as a new one. A quorum
                // of the second split opens the envelope; less does not, unless the old share alone satisfies the
                // first policy.
                let s = (st.arg(3) % flat.len() as u64) as usize;
                let holder = flat[s].1.clone();
                let spec2 = SSKRSpec::new(1, vec![SSKRGroupSpec::new(2, 3).unwrap()]).unwrap();
                let old_alone = policy_met(&groups, gt, &[flat[s].0]);
                // the two splits draw their 16-bit identifiers independently: once in 65 536 they coincide, the shares of
                // both splits then land in one group that cannot combine, and nothing is promised for that split (as in
                // K.Foreign): the custodian splits again. Four independent splits that all draw the first split's
                // identifier (2^-64) mean the identifiers are not drawn afresh, and no re-split can ever be joined.
                let ids_of = |e: &Envelope| -> BTreeSet<u16> { e.assertions_with_predicate(known_values::SSKR_SHARE).iter().filter_map(|a| a.as_object()).filter_map(|o| o.extract_subject::<bc_components::SSKRShare>().ok()).map(|sh| sh.identifier()).collect() };
                let mut second: Vec<Envelope> = vec![];
                let mut broken = false;
                for attempt in 0..4 {
                    let pieces: Vec<Envelope> = match guarded(|| holder.sskr_split_flattened(&spec2, &ck)) {
                        Ok(Ok(x)) => x,
                        Ok(Err(e)) => {
                            ctx.checked();
                            ctx.violate("C11.split", format!("splitting a share envelope again failed: {}", e));
                            broken = true;
                            break;
                        }
                        Err(p) => {
                            ctx.violate_sig("C11.no-panic", format!("sskr_split of a share envelope panicked: {}", p), p);
                            broken = true;
                            break;
                        }
                    };
                    let pieces: Vec<Envelope> = pieces.iter().filter_map(|e| transmit(ctx, e)).collect();
                    if pieces.len() != 3 {
                        ctx.violate("C11.split", "the second split did not return three share envelopes that survive transport".to_string());
                        broken = true;
                        break;
                    }
                    if ids_of(&pieces[0]).len() >= 2 {
                        second = pieces;
                        break;
                    }
                    ctx.probe("identifier-collision");
                    if attempt == 3 {
                        ctx.checked();
                        ctx.violate("C11.iff", "four independent splits of a share envelope all drew the identifier of the first split: a quorum of the pieces can never be joined (each piece carries two shares under one identifier)".to_string());
                        broken = true;
                    }
                }
                if broken || second.is_empty() {
                    continue;
                }
                for mask in 1u32..8 {
                    let envs: Vec<&Envelope> = (0..3).filter(|i| mask & (1 << i) != 0).map(|i| &second[i]).collect();
                    let met2 = envs.len() >= 2;
                    ctx.checked();
                    ctx.fault("net.drop");
                    match guarded(|| Envelope::sskr_join(&envs)) {
                        Ok(Ok(x)) => {
                            if !ident(&x, &expected_subject) {
                                ctx.violate("C11.never-wrong", "join of a re-split share envelope returned an envelope that is not the original decrypted subject".to_string());
                            } else if !met2 && !old_alone {
                                ctx.violate("C11.iff", "join of one piece of a re-split share envelope succeeded although neither policy is satisfied".to_string());
                            }
                        }
                        Ok(Err(e)) => {
                            if met2 {
                                ctx.violate("C11.iff", format!("join failed although {} of the 2-of-3 pieces of a re-split share envelope were presented (each also carries the share of the first split): {}", envs.len(), e));
                            }
                        }
                        Err(p) => ctx.violate_sig("C11.no-panic", format!("sskr_join of re-split pieces panicked: {}", p), p),
                    }
                }
                ctx.probe("share-envelope-split-again");
            }
            "K.Foreign" => {
                // shares of a second split (other document, other key) mixed in by a misrouting network
                let o = w.idx(st.arg(3)).unwrap_or(d);
                let other = w.docs[o].env.add_assertion("other", 1);
                let ck2 = sym_key(((st.arg(2) + 1) % 4) as u32);
                let enc2 = match guarded(|| other.wrap_envelope().encrypt_subject(&ck2)) {
                    Ok(Ok(e)) => e,
                    _ => continue,
                };
                let spec2 = SSKRSpec::new(1, vec![SSKRGroupSpec::new(2, 3).unwrap()]).unwrap();
                let shares2: Vec<Envelope> = match guarded(|| enc2.sskr_split_flattened(&spec2, &ck2)) {
                    Ok(Ok(s)) => s,
                    _ => continue,
                };
                let mut r = SimRng::new(st.arg(3) ^ 77);
                for _ in 0..12 {
                    let subset: Vec<usize> = (0..flat.len()).filter(|_| r.chance(2, 3)).collect();
                    if subset.is_empty() {
                        continue;
                    }
                    let nf = r.range(1, 2) as usize; // below the foreign split's own threshold of 2 when nf == 1
                    let extra: Vec<Envelope> = shares2.iter().take(nf).cloned().collect();
                    ctx.fault("net.misroute");
                    // identifiers of the two splits (16 bit): when they differ, stray shares of another split
                    // must not prevent a quorum of the first-listed split from being found
                    let ident_of = |e: &Envelope| -> Option<u16> { e.assertions_with_predicate(known_values::SSKR_SHARE).first().and_then(|a| a.as_object()).and_then(|o| o.extract_subject::<bc_components::SSKRShare>().ok()).map(|s| s.identifier()) };
                    let distinct_ids = match (ident_of(&flat[0].1), ident_of(&shares2[0])) {
                        (Some(a), Some(b)) => a != b,
                        _ => false,
                    };
                    if !distinct_ids {
                        ctx.probe("identifier-collision");
                    }
                    join_check(ctx, &subset, distinct_ids && nf == 1, "with foreign shares", &flat, &extra);
                }
                ctx.probe("foreign-share");
            }
            _ => {}
        }
        ctx.t(&format!("{} policy {:?}/{} shares {}", op, groups, gt, flat.len()));
        ctx.shape_mix(om.shape_hash() ^ (total as u64 * 131 + gt as u64));
        if ctx.failed() && ctx.stop_at_first {
            break;
        }
    }
}

pub fn generate_sskr(property: &str, r: &mut SimRng, seed: u64) -> Scenario {
    let mut scn = hist::generate(property, r, seed);
    scn.family = "sskr".to_string();
    let keep = r.range(2, 6) as usize;
    scn.steps.truncate(keep.max(2));
    let op = *r.pick(&["K.Subsets", "K.Subsets", "K.Subsets", "K.Dup", "K.Foreign", "K.Extreme", "K.Resplit"]);
    scn.push(op, &[ds(r), r.next(), r.below(64), r.next()]);
    scn
}

// ======================================================================================
// C12 inclusion proofs

pub fn run_proof(scn: &Scenario, ctx: &mut Ctx) {
    let mut w = World::new(scn.cfg("leafdom", crate::gen::DOM_ALL));
    for (i, st) in scn.steps.iter().enumerate() {
        ctx.step = i;
        ctx.sim_ticks += 1;
        let op = st.op.as_str();
        if !op.starts_with("P.") {
            if !matches!(hist::exec_step(&mut w, ctx, st), StepResult::Skipped) {
                ctx.executed += 1;
            }
            continue;
        }
        let d = match w.idx(st.arg(0)) {
            Some(d) => d,
            None => continue,
        };
        ctx.executed += 1;
        let doc = w.docs[d].env.clone();
        let dm = w.docs[d].m.clone();
        // target set from the model's digest list
        let list = dm.digest_list();
        let mut targets: BTreeSet<D> = BTreeSet::new();
        for (k, dg) in list.iter().enumerate() {
            if k < 60 && st.arg(1) & (1 << k) != 0 {
                targets.insert(*dg);
            }
        }
        if targets.is_empty() && !list.is_empty() {
            // the mask addressed positions beyond this (small) document: fall back to one existing digest
            targets.insert(list[(st.arg(1) % list.len() as u64) as usize]);
        }
        let absent = st.arg(2) % 5 == 0;
        if absent {
            targets.insert(sha(&st.arg(2).to_le_bytes()));
            ctx.probe("absent-target");
        }
        // the empty target set: every target (there is none) occurs, so a proof is produced and accepted
        let empty = op == "P.Honest" && st.arg(2) % 11 == 3;
        if empty {
            targets.clear();
            ctx.probe("empty-target-set");
        }
        if targets.is_empty() && !empty {
            continue;
        }
        if targets.len() >= 2 {
            ctx.probe("two-or-more-targets");
        }
        if targets.contains(&dm.digest()) {
            ctx.probe("root-is-target");
        }
        let lib_t = to_lib_set(&targets);
        let all_present = targets.iter().all(|t| list.contains(t));
        // nested: one target position lies inside another target's subtree
        let nested = {
            let mut n = false;
            for p in dm.positions() {
                if targets.contains(&p.digest()) {
                    for q in p.positions().iter().skip(1) {
                        if targets.contains(&q.digest()) && q.digest() != p.digest() {
                            n = true;
                        }
                    }
                }
            }
            n
        };
        if nested {
            ctx.probe("nested-targets");
        }
        // another holder has a copy of the same document (same root digest) in which one part is elided: asked for
        // the same targets, before or after the holder of this copy, it can prove them iff they occur in ITS copy
        let copy_check = |ctx: &mut Ctx| {
            if !w.docs[d].independent || dm.has_obscured() {
                return;
            }
            let pos = dm.positions();
            if pos.len() < 2 {
                return;
            }
            let p = &pos[1 + (st.arg(3) % (pos.len() as u64 - 1)) as usize];
            let mut hide = BTreeSet::new();
            hide.insert(p.digest());
            let dm2 = dm.obscure_set(&hide, false, Obsc::Elided);
            let doc2 = match guarded(|| doc.elide_removing_target(&to_lib_digest(&p.digest()))) {
                Ok(e) => e,
                Err(_) => return,
            };
            if digest_of(&doc2) != dm.digest() {
                return;
            }
            let list2 = dm2.digest_list();
            let present2 = targets.iter().all(|t| list2.contains(t));
            ctx.checked();
            match guarded(|| doc2.proof_contains_set(&lib_t)) {
                Ok(pr) => {
                    if pr.is_some() != present2 {
                        ctx.violate("C12.produced-iff", format!("a partly elided copy of the document: proof produced = {} but all targets present in that copy = {}", pr.is_some(), present2));
                    }
                    if present2 != all_present {
                        ctx.probe("copies-differ-in-target-presence");
                    }
                }
                Err(p) => ctx.violate_sig("C16.no-panic", format!("proof_contains_set panicked on a partly elided copy: {}", p), p),
            }
        };
        let copy_mode = st.arg(2) % 4;
        if copy_mode == 1 {
            copy_check(ctx);
        }
        // one target: the single-target entry points are equivalent (used every other time)
        let single: Option<bc_components::Digest> = if targets.len() == 1 && st.arg(3) % 2 == 1 { targets.iter().next().map(to_lib_digest) } else { None };
        if single.is_some() {
            ctx.probe("single-target-entry-points");
        }
        let proof = match guarded(|| match &single {
            Some(t) => doc.proof_contains_target(t),
            None => doc.proof_contains_set(&lib_t),
        }) {
            Ok(p) => p,
            Err(p) => {
                ctx.violate_sig("C16.no-panic", format!("proof_contains_set panicked: {}", p), p);
                continue;
            }
        };
        if copy_mode == 2 {
            copy_check(ctx);
        }
        ctx.checked();
        // completeness of production
        if proof.is_some() != all_present {
            ctx.violate("C12.produced-iff", format!("proof produced = {} but all targets present = {}", proof.is_some(), all_present));
            continue;
        }
        // the verifier holds only the root digest
        let verifier = doc.elide();
        match op {
            "P.Honest" => {
                if let Some(p) = proof {
                    let delivered = match transmit(ctx, &p) {
                        Some(x) => x,
                        None => {
                            ctx.violate("C12.transport", "proof does not survive encode/decode".to_string());
                            continue;
                        }
                    };
                    if digest_of(&delivered) != dm.digest() {
                        ctx.violate("C12.root", "a produced proof does not have the envelope's root digest".to_string());
                    }
                    match guarded(|| match &single {
                        Some(t) => verifier.confirm_contains_target(t, &delivered),
                        None => verifier.confirm_contains_set(&lib_t, &delivered),
                    }) {
                        Ok(true) => {}
                        Ok(false) => ctx.violate("C12.complete", format!("a produced proof for {} present target(s) (nested={}) is not accepted by a verifier holding the root digest", targets.len(), nested)),
                        Err(p) => ctx.violate_sig("C16.no-panic", format!("confirm_contains_set panicked: {}", p), p),
                    }
                    // minimality, judged by the independent recogniser on the wire bytes
                    if let Ok(rec) = recognise(&delivered.to_cbor_data()) {
                        // ancestors-or-self of target positions in the original
                        let mut on_path: BTreeSet<D> = BTreeSet::new();
                        // elements with a target strictly inside them (they may - must - be disclosed even if they are targets)
                        let mut interior: BTreeSet<D> = BTreeSet::new();
                        fn mark(m: &M, targets: &BTreeSet<D>, on_path: &mut BTreeSet<D>, interior: &mut BTreeSet<D>) -> bool {
                            let mut below = false;
                            for c in m.children() {
                                if mark(&c, targets, on_path, interior) {
                                    below = true;
                                }
                            }
                            if below {
                                interior.insert(m.digest());
                            }
                            let hit = below || targets.contains(&m.digest());
                            if hit {
                                on_path.insert(m.digest());
                            }
                            hit
                        }
                        mark(&dm, &targets, &mut on_path, &mut interior);
                        for pos in rec.m.positions() {
                            // (revealing works by digest: another occurrence of an on-path element that happens to be
                            // compressed/encrypted in the source stays as it is, and it discloses nothing off the paths)
                            if pos.is_obscured() && pos.obsc() != Obsc::Elided && !on_path.contains(&pos.digest()) {
                                ctx.violate("C12.minimal", "a proof carries a compressed or encrypted element where only an elided digest may appear".to_string());
                                break;
                            }
                            if !pos.is_obscured() {
                                if !on_path.contains(&pos.digest()) {
                                    ctx.violate("C12.minimal", "a proof discloses an element that is not on a path from the root to a target".to_string());
                                    break;
                                }
                                if targets.contains(&pos.digest()) && !interior.contains(&pos.digest()) {
                                    ctx.violate("C12.minimal", "a proof discloses a target itself instead of its elided digest".to_string());
                                    break;
                                }
                            }
                        }
                    }
                }
            }
            "P.Tampered" | "P.Misrouted" | "P.OtherTargets" => {
                // soundness for whatever is delivered: accepted ⇒ same root digest and every target visible in it
                let delivered_bytes: Option<Vec<u8>> = match op {
                    "P.Tampered" => proof.as_ref().and_then(|p| {
                        let b = p.to_cbor_data();
                        if st.arg(3) % 2 == 0 {
                            byte_mutate(&b, st.arg(3) / 2, st.arg(4), st.arg(3)).map(|(x, n)| {
                                ctx.fault(n);
                                x
                            })
                        } else {
                            struct_mutate(&b, st.arg(3) / 2, st.arg(4), st.arg(3)).map(|m| {
                                ctx.fault(m.name);
                                m.bytes
                            })
                        }
                    }),
                    "P.Misrouted" => {
                        // a proof made for another document
                        let o = w.idx(st.arg(3)).unwrap_or(d);
                        let od = w.docs[o].env.clone();
                        let ot = to_lib_set(&select(&w.docs[o].m, st.arg(4)));
                        ctx.fault("net.misroute");
                        od.proof_contains_set(&ot).map(|p| p.to_cbor_data())
                    }
                    _ => {
                        // a proof of the same document for other targets
                        let ot = to_lib_set(&select(&dm, st.arg(4)));
                        ctx.fault("net.misroute");
                        doc.proof_contains_set(&ot).map(|p| p.to_cbor_data())
                    }
                };
                let bytes = match delivered_bytes {
                    Some(b) => b,
                    None => continue,
                };
                let delivered = match decode_guarded(&bytes) {
                    Decoded::Ok(e) => e,
                    _ => continue,
                };
                ctx.probe("tampered-or-foreign-proof-still-decodes");
                let visible: BTreeSet<D> = match recognise(&delivered.to_cbor_data()) {
                    Ok(r) => r.m.digest_set(),
                    Err(_) => continue,
                };
                let should = digest_of(&delivered) == dm.digest() && targets.iter().all(|t| visible.contains(t));
                match guarded(|| match &single {
                    Some(t) => verifier.confirm_contains_target(t, &delivered),
                    None => verifier.confirm_contains_set(&lib_t, &delivered),
                }) {
                    Ok(b) => {
                        if b && !should {
                            ctx.violate("C12.sound", format!("a verifier accepted a proof whose root digest differs or in which a target does not occur ({})", op));
                        }
                        if !b && should {
                            ctx.violate("C12.complete", format!("a verifier rejected a delivered proof that has the root digest and shows every target ({})", op));
                        }
                    }
                    Err(p) => ctx.violate_sig("C16.no-panic", format!("confirm_contains_set panicked: {}", p), p),
                }
            }
            _ => {}
        }
        ctx.t(&format!("{} targets={} present={} nested={}", op, targets.len(), all_present, nested));
        ctx.shape_mix(dm.shape_hash() ^ targets.len() as u64);
        if ctx.failed() && ctx.stop_at_first {
            break;
        }
    }
}

fn select(m: &M, mask: u64) -> BTreeSet<D> {
    let list = m.digest_list();
    let mut t = BTreeSet::new();
    for (k, dg) in list.iter().enumerate() {
        if k < 60 && mask & (1 << k) != 0 {
            t.insert(*dg);
        }
    }
    if t.is_empty() {
        if let Some(x) = list.first() {
            t.insert(*x);
        }
    }
    t
}

pub fn generate_proof(property: &str, r: &mut SimRng, seed: u64) -> Scenario {
    let mut scn = hist::generate(property, r, seed);
    scn.family = "proof".to_string();
    let keep = r.range(3, 12) as usize;
    scn.steps.truncate(keep.max(2));
    let n = r.range(1, 4);
    for _ in 0..n {
        let op = *r.pick(&["P.Honest", "P.Honest", "P.Honest", "P.Tampered", "P.Tampered", "P.Misrouted", "P.OtherTargets"]);
        let mask = match r.below(4) {
            0 => 1u64 << r.below(10),
            1 => (1u64 << r.below(10)) | (1u64 << r.below(10)),
            2 => r.next() & r.next() & r.next(),
            _ => r.next() & r.next(),
        };
        scn.push(op, &[ds(r), mask, r.next() % 1000, r.next() % 100000, r.next()]);
    }
    scn
}
