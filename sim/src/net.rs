//! Transport and storage families.
//!  * C03 "tap": a holder elides and sends; an eavesdropper taps every message; later the holder
//!    offers content for a placeholder (possibly misrouted or damaged) and the verifier un-elides.
//!  * C05 "store": parties store documents in durable slots (CBOR bytes or UR strings), crash and
//!    restart from storage; storage faults: lost write, misdirected write, torn write.

use crate::bridge::*;
use crate::core::{Ctx, Scenario};
use crate::cv::{hex, CV};
use crate::gen;
use crate::hist::{self, StepResult, World};
use crate::model::*;
use crate::rng::SimRng;
use crate::wire::{byte_mutate, decode_guarded, Decoded};
use bc_envelope::prelude::*;
use std::collections::{BTreeMap, BTreeSet};

fn marker_in(cv: &CV) -> Option<String> {
    match cv {
        CV::T(s) if s.starts_with("t-") && s.len() == 18 => Some(s[2..].to_string()),
        CV::B(b) if b.len() == 16 && b.iter().all(|c| c.is_ascii_hexdigit()) => Some(String::from_utf8_lossy(b).to_string()),
        CV::A(v) if v.len() == 2 => match &v[0] {
            CV::T(s) if s.len() == 16 && s.bytes().all(|c| c.is_ascii_hexdigit()) => Some(s.clone()),
            _ => None,
        },
        _ => None,
    }
}

/// markers of all leaves visible in the model tree
fn visible_markers(m: &M) -> BTreeSet<String> {
    let mut out = BTreeSet::new();
    for p in m.positions() {
        if let (Obsc::Clear, MKind::Leaf(cv)) = (p.obsc(), p.kind()) {
            if let Some(mk) = marker_in(cv) {
                out.insert(mk);
            }
        }
    }
    out
}

fn contains(hay: &[u8], needle: &[u8]) -> bool {
    !needle.is_empty() && hay.windows(needle.len()).any(|w| w == needle)
}

pub fn run_tap(scn: &Scenario, ctx: &mut Ctx) {
    let mut w = World::new(scn.cfg("leafdom", gen::DOM_ALL));
    for (i, st) in scn.steps.iter().enumerate() {
        ctx.step = i;
        ctx.sim_ticks += 1;
        let op = st.op.as_str();
        if !op.starts_with("T.") {
            if !matches!(hist::exec_step(&mut w, ctx, st), StepResult::Skipped) {
                ctx.executed += 1;
            }
            continue;
        }
        let d = match w.idx(st.arg(0)) {
            Some(d) => d,
            None => continue,
        };
        if !w.docs[d].independent {
            continue;
        }
        ctx.executed += 1;
        let doc = w.docs[d].env.clone();
        let dm = w.docs[d].m.clone();
        match op {
            "T.ElideSend" => {
                let revealing = st.arg(1) % 2 == 1;
                let action = match st.arg(2) % 3 {
                    0 => Obsc::Elided,
                    1 => Obsc::Encrypted((st.arg(4) % 4) as u32),
                    _ => Obsc::Compressed,
                };
                // targets by rank in the model's digest list
                let list = dm.digest_list();
                let mut targets: BTreeSet<D> = BTreeSet::new();
                for (k, dg) in list.iter().enumerate() {
                    if k < 60 && st.arg(3) & (1 << k) != 0 {
                        targets.insert(*dg);
                    }
                }
                let lt = to_lib_set(&targets);
                let act = obscure_action(action);
                let _ = (&lt, &act);
                let sent = match guarded(|| elide_via(&doc, &targets, revealing, action, st.arg(4) >> 2)) {
                    Ok(e) => e,
                    Err(p) => {
                        ctx.violate_sig("C16.no-panic", format!("elide panicked: {}", p), p);
                        continue;
                    }
                };
                let after = dm.obscure_set(&targets, revealing, action);
                // the wire: what the eavesdropper sees
                let wire = sent.to_cbor_data();
                ctx.checked();
                // (a) pattern, judged from the wire bytes by the independent recogniser
                match recognise(&wire) {
                    Ok(r) => {
                        if !r.m.same_structure(&after) {
                            ctx.violate("C03.pattern", format!("the visibility pattern on the wire differs from the rule ({} targets, {} mode, {:?})", targets.len(), if revealing { "revealing" } else { "removing" }, action));
                        }
                    }
                    Err(e) => ctx.violate("C03.pattern", format!("the elided envelope's encoding is not a well-formed envelope: {:?}", e)),
                }
                // untouched elements are identical to the original's (leaf content compared through case())
                if let Err(e) = compare_env(&sent, &after, "") {
                    ctx.violate("C03.pattern", format!("elided envelope differs from the model: {}", e));
                }
                // (b) residue: no marker of a hidden leaf appears on the wire (elide: only the digest remains;
                // encrypt: only ciphertext). Compression is not concealment and is not scanned.
                if !matches!(action, Obsc::Compressed) && !dm.positions().iter().any(|p| matches!(p.obsc(), Obsc::Compressed)) {
                    let before = visible_markers(&dm);
                    let still = visible_markers(&after);
                    for mk in before.difference(&still) {
                        ctx.probe("hidden-marker-scanned");
                        if contains(&wire, mk.as_bytes()) {
                            ctx.violate("C03.residue", format!("content of a hidden element (marker {}) is still present in the serialized result", mk));
                        }
                    }
                    for mk in &still {
                        if !contains(&wire, mk.as_bytes()) {
                            ctx.violate("C03.pattern", format!("content of an element that must stay visible (marker {}) is missing from the result", mk));
                        }
                    }
                }
                // position probes
                for p in dm.positions() {
                    if targets.contains(&p.digest()) {
                        match p.kind() {
                            MKind::Wrapped(_) => ctx.probe("target-wrapped"),
                            MKind::Assertion(..) => ctx.probe("target-whole-assertion"),
                            _ => {}
                        }
                    }
                    if let (Obsc::Clear, MKind::Wrapped(inner)) = (p.obsc(), p.kind()) {
                        if inner.positions().iter().any(|q| targets.contains(&q.digest())) {
                            ctx.probe("target-inside-wrapped");
                        }
                    }
                }
                if targets.contains(&dm.digest()) {
                    ctx.probe("target-is-root");
                }
                // receiver decodes; the result becomes a document of the world
                if let Decoded::Ok(rx) = decode_guarded(&wire) {
                    let bytes = rx.to_cbor_data();
                    w.docs.push(hist::Doc { env: rx, m: after.clone(), bytes, independent: true });
                }
                ctx.t(&format!("T.ElideSend {} targets {:?} {}B", targets.len(), action, wire.len()));
                ctx.shape_mix(after.shape_hash());
            }
            "T.Unelide" => {
                // the holder offers content for the placeholder `d` (elided version of some document);
                // the network may misroute another document or damage the content
                let o = match w.idx(st.arg(1)) {
                    Some(o) => o,
                    None => continue,
                };
                let placeholder = doc.elide();
                let mut offered_bytes = w.docs[o].bytes.clone();
                let kind = st.arg(2) % 3;
                if kind == 1 {
                    ctx.fault("net.misroute");
                } else if kind == 2 {
                    if let Some((b, n)) = byte_mutate(&offered_bytes, 0, st.arg(3), 0) {
                        ctx.fault(n);
                        offered_bytes = b;
                    }
                }
                let offered = match decode_guarded(&offered_bytes) {
                    Decoded::Ok(e) => e,
                    _ => continue,
                };
                // independent digest of what was offered
                let od = match recognise(&offered.to_cbor_data()) {
                    Ok(r) => r.m.digest(),
                    Err(_) => continue,
                };
                ctx.checked();
                match guarded(|| placeholder.unelide(offered.clone())) {
                    Ok(Ok(x)) => {
                        if od != dm.digest() {
                            ctx.violate("C03.unelide", "un-eliding accepted an envelope whose digest differs from the placeholder's".to_string());
                        } else if x.to_cbor_data() != offered.to_cbor_data() {
                            ctx.violate("C03.unelide", "un-eliding returned something other than the offered envelope".to_string());
                        }
                    }
                    Ok(Err(_)) => {
                        if od == dm.digest() {
                            ctx.violate("C03.unelide", "un-eliding refused an envelope with the placeholder's digest".to_string());
                        } else {
                            ctx.probe("wrong-content-refused");
                        }
                    }
                    Err(p) => ctx.violate_sig("C16.no-panic", format!("unelide panicked: {}", p), p),
                }
                ctx.t("T.Unelide");
            }
            _ => {}
        }
        if ctx.failed() && ctx.stop_at_first {
            break;
        }
    }
}

pub fn generate_tap(property: &str, r: &mut SimRng, seed: u64) -> Scenario {
    let mut scn = hist::generate(property, r, seed);
    scn.family = "tap".to_string();
    let keep = r.range(3, 12) as usize;
    scn.steps.truncate(keep.max(2));
    let n = r.range(1, 5);
    for _ in 0..n {
        let d = if r.chance(2, 3) { r.below(3) } else { r.below(12) };
        if r.chance(3, 4) {
            let mask = match r.below(4) {
                0 => 1u64 << r.below(12),
                1 => r.next() & r.next(),
                2 => r.next(),
                _ => (1u64 << r.below(12)) | (1u64 << r.below(12)),
            };
            scn.push("T.ElideSend", &[d, r.below(2), r.below(5) % 3, mask, r.below(4) | (r.below(6) << 2)]);
        } else {
            scn.push("T.Unelide", &[d, r.below(6), r.below(3), r.next() % 100000]);
        }
    }
    scn
}

// ======================================================================================
// C05 storage, crash, restart

pub fn run_store(scn: &Scenario, ctx: &mut Ctx) {
    let mut w = World::new(scn.cfg("leafdom", gen::DOM_ALL));
    // durable: slot -> bytes currently on disk; history: every version that was ever meant for or written to the slot
    let mut disk: BTreeMap<u64, Vec<u8>> = BTreeMap::new();
    let mut legit: BTreeMap<u64, Vec<Vec<u8>>> = BTreeMap::new();
    // what the owner believes is stored (acknowledged, fault-free writes only): slot -> (doc index, form)
    let mut believed: BTreeMap<u64, (Envelope, Vec<u8>, M, bool, u64)> = BTreeMap::new();
    for (i, st) in scn.steps.iter().enumerate() {
        ctx.step = i;
        ctx.sim_ticks += 1;
        let op = st.op.as_str();
        if !op.starts_with("D.") {
            if !matches!(hist::exec_step(&mut w, ctx, st), StepResult::Skipped) {
                ctx.executed += 1;
            }
            continue;
        }
        ctx.executed += 1;
        match op {
            "D.Store" => {
                let d = match w.idx(st.arg(0)) {
                    Some(d) => d,
                    None => continue,
                };
                let slot = st.arg(1) % 4;
                let form = st.arg(2) % 2; // 0 CBOR bytes, 1 UR string
                let data: Vec<u8> = if form == 0 {
                    w.docs[d].bytes.clone()
                } else {
                    match guarded(|| w.docs[d].env.ur_string()) {
                        Ok(s) => s.into_bytes(),
                        Err(p) => {
                            ctx.violate_sig("C16.no-panic", format!("ur_string panicked: {}", p), p);
                            continue;
                        }
                    }
                };
                // the version is legitimately "in" this slot's history from the moment it is issued
                legit.entry(slot).or_default().push(data.clone());
                match st.arg(3) % 8 {
                    0 => {
                        ctx.fault("store.lost_write"); // slot keeps the previous version
                        believed.remove(&slot);
                    }
                    1 => {
                        ctx.fault("store.misdirected"); // bytes land in another slot
                        let other = (slot + 1 + st.arg(4) % 3) % 4;
                        legit.entry(other).or_default().push(data.clone());
                        disk.insert(other, data);
                        believed.remove(&slot);
                        believed.remove(&other);
                    }
                    2 => {
                        ctx.fault("store.torn"); // cut short
                        let cut = if data.is_empty() { 0 } else { (st.arg(4) % data.len() as u64) as usize };
                        disk.insert(slot, data[..cut].to_vec());
                        believed.remove(&slot);
                    }
                    _ => {
                        disk.insert(slot, data);
                        believed.insert(slot, (w.docs[d].env.clone(), w.docs[d].bytes.clone(), w.docs[d].m.clone(), w.docs[d].independent, form));
                    }
                }
                ctx.t(&format!("D.Store slot {} form {} fault {}", slot, form, st.arg(3) % 8));
            }
            "D.CrashReload" => {
                // the party loses its memory and restarts from storage: every slot goes through the decoder
                ctx.fault("crash");
                for (slot, data) in disk.clone() {
                    ctx.checked();
                    let is_ur = data.starts_with(b"ur:");
                    let r: Result<Result<Envelope, String>, String> = if is_ur {
                        guarded(|| Envelope::from_ur_string(String::from_utf8_lossy(&data).to_string()).map_err(|e| e.to_string()))
                    } else {
                        guarded(|| Envelope::try_from_cbor_data(data.clone()).map_err(|e| e.to_string()))
                    };
                    match r {
                        Err(p) => ctx.violate_sig("C16.no-panic", format!("decoding a stored slot panicked: {}", p), p),
                        Ok(Err(e)) => {
                            // an acknowledged, fault-free write must read back
                            if believed.contains_key(&slot) {
                                ctx.violate("C05.durable", format!("a document stored without faults does not load after restart: {}", e));
                            } else {
                                ctx.probe("damaged-slot-rejected");
                            }
                        }
                        Ok(Ok(e)) => {
                            // what is reloaded is a version that was stored there, never a third thing
                            let re_cbor = e.to_cbor_data();
                            let re_ur = e.ur_string().into_bytes();
                            let versions = legit.get(&slot).cloned().unwrap_or_default();
                            if !versions.iter().any(|v| *v == re_cbor || *v == re_ur) {
                                ctx.violate("C05.durable", format!("slot {} reloads as an envelope that was never stored there: {}", slot, hex(&re_cbor[..re_cbor.len().min(60)])));
                            }
                            if let Some((denv, dbytes, dm, dind, form)) = believed.get(&slot) {
                                // fault-free round trip through storage: identical, positionally equal, same bytes
                                if re_cbor != *dbytes {
                                    ctx.violate("C05.bytes", format!("document reloaded from storage (form {}) re-encodes differently", form));
                                }
                                if !e.is_identical_to(denv) {
                                    ctx.violate("C05.identical", "document reloaded from storage is not identical to the stored one".to_string());
                                }
                                if positions_by_case(&e) != positions_by_case(denv) {
                                    ctx.violate("C05.positions", "document reloaded from storage differs in case or digest at some position".to_string());
                                }
                                if *dind {
                                    if let Err(x) = compare_env(&e, dm, "") {
                                        ctx.violate("C05.model", format!("document reloaded from storage differs from the model: {}", x));
                                    }
                                }
                                ctx.probe("fault-free-reload");
                            }
                        }
                    }
                }
                ctx.t(&format!("D.CrashReload {} slots", disk.len()));
            }
            "D.BitRot" => {
                // a stored byte flips at rest
                let slot = st.arg(0) % 4;
                if let Some(data) = disk.get(&slot).cloned() {
                    if let Some((b, n)) = byte_mutate(&data, 0, st.arg(1), 0) {
                        ctx.fault(n);
                        disk.insert(slot, b);
                        believed.remove(&slot);
                        // a flipped stored byte creates bytes nobody issued; whatever decodes from them must
                        // at least be self-consistent: checked by the C06 family; here the slot leaves the durable set
                        legit.remove(&slot);
                        disk.remove(&slot);
                    }
                }
            }
            _ => {}
        }
        if ctx.failed() && ctx.stop_at_first {
            break;
        }
    }
}

pub fn generate_store(property: &str, r: &mut SimRng, seed: u64) -> Scenario {
    let mut scn = hist::generate(property, r, seed);
    scn.family = "store".to_string();
    // interleave storage operations with the history
    let mut steps = vec![];
    let faulty = r.chance(1, 2); // fault-free and fault-injecting configurations are separate runs
    for s in scn.steps.drain(..) {
        steps.push(s);
        if r.chance(1, 3) {
            let d = if r.chance(2, 3) { r.below(3) } else { r.below(12) };
            let fault = if faulty { r.below(8) } else { 7 };
            steps.push(crate::core::Step::new("D.Store", &[d, r.below(4), r.below(2), fault, r.next() % 100000]));
        }
        if r.chance(1, 8) {
            steps.push(crate::core::Step::new("D.CrashReload", &[]));
        }
    }
    steps.push(crate::core::Step::new("D.Store", &[0, r.below(4), r.below(2), 7, 0]));
    steps.push(crate::core::Step::new("D.CrashReload", &[]));
    scn.steps = steps;
    scn.cfg.insert("faulty".into(), faulty as u64);
    scn
}
