//! SimRng: xoshiro256** seeded through SplitMix64. Implemented locally so that no crate
//! version can ever change the stream: one seed = one execution.

#[derive(Clone, Debug)]
pub struct SimRng {
    s: [u64; 4],
}

pub fn splitmix64(x: &mut u64) -> u64 {
    *x = x.wrapping_add(0x9E3779B97F4A7C15);
    let mut z = *x;
    z = (z ^ (z >> 30)).wrapping_mul(0xBF58476D1CE4E5B9);
    z = (z ^ (z >> 27)).wrapping_mul(0x94D049BB133111EB);
    z ^ (z >> 31)
}

/// FNV-1a over a label; used to fork sub-streams by name.
pub fn label_hash(label: &str) -> u64 {
    let mut h: u64 = 0xcbf29ce484222325;
    for b in label.as_bytes() {
        h ^= *b as u64;
        h = h.wrapping_mul(0x100000001b3);
    }
    h
}

/// Mix several words into one seed.
pub fn mix(words: &[u64]) -> u64 {
    let mut x: u64 = 0x243F6A8885A308D3;
    let mut acc = 0u64;
    for w in words {
        x ^= *w;
        acc = acc.rotate_left(17) ^ splitmix64(&mut x);
    }
    let mut y = acc ^ x;
    splitmix64(&mut y)
}

impl SimRng {
    pub fn new(seed: u64) -> Self {
        let mut x = seed;
        let s = [splitmix64(&mut x), splitmix64(&mut x), splitmix64(&mut x), splitmix64(&mut x)];
        SimRng { s }
    }
    /// An independent stream derived from this generator's *seed state* and a label
    /// (does not advance self, so adding a draw in one stream never shifts another).
    pub fn fork(&self, label: &str) -> SimRng {
        SimRng::new(mix(&[self.s[0], self.s[1], self.s[2], self.s[3], label_hash(label)]))
    }
    pub fn next(&mut self) -> u64 {
        let result = self.s[1].wrapping_mul(5).rotate_left(7).wrapping_mul(9);
        let t = self.s[1] << 17;
        self.s[2] ^= self.s[0];
        self.s[3] ^= self.s[1];
        self.s[1] ^= self.s[2];
        self.s[0] ^= self.s[3];
        self.s[2] ^= t;
        self.s[3] = self.s[3].rotate_left(45);
        result
    }
    /// Uniform in [0, n) (n > 0); slight modulo bias is irrelevant here.
    pub fn below(&mut self, n: u64) -> u64 {
        debug_assert!(n > 0);
        if n == 0 { return 0; }
        self.next() % n
    }
    pub fn range(&mut self, lo: u64, hi_incl: u64) -> u64 {
        lo + self.below(hi_incl - lo + 1)
    }
    pub fn chance(&mut self, num: u64, den: u64) -> bool {
        self.below(den) < num
    }
    pub fn pick<'a, T>(&mut self, xs: &'a [T]) -> &'a T {
        &xs[self.below(xs.len() as u64) as usize]
    }
    pub fn bytes(&mut self, n: usize) -> Vec<u8> {
        let mut v = Vec::with_capacity(n);
        while v.len() < n {
            let w = self.next().to_le_bytes();
            let take = (n - v.len()).min(8);
            v.extend_from_slice(&w[..take]);
        }
        v
    }
    pub fn seed32(&mut self) -> [u8; 32] {
        let b = self.bytes(32);
        let mut a = [0u8; 32];
        a.copy_from_slice(&b);
        a
    }
    pub fn shuffle<T>(&mut self, xs: &mut [T]) {
        for i in (1..xs.len()).rev() {
            let j = self.below(i as u64 + 1) as usize;
            xs.swap(i, j);
        }
    }
}
