//! Deterministic long-lived key pool: a key is a pure function of (scheme code, id), derived
//! through the entropy seams with a temporary seed (bc-rand for the classical schemes, the
//! interposed `getrandom` for pqcrypto's ML-DSA / ML-KEM), cached process-wide. A key is generated on
//! a helper thread so that generating it does not advance the caller's hash keys (see osrand.rs).

use bc_components::{EncapsulationPrivateKey, EncapsulationPublicKey, EncapsulationScheme, SignatureScheme, SigningOptions, SigningPrivateKey, SigningPublicKey};
use std::collections::BTreeMap;
use std::sync::Mutex;

pub const SIG_SCHNORR: u8 = 0;
pub const SIG_ECDSA: u8 = 1;
pub const SIG_ED25519: u8 = 2;
pub const SIG_SSH_ED25519: u8 = 3;
pub const SIG_SSH_P256: u8 = 4;
pub const SIG_SSH_P384: u8 = 5;
pub const SIG_SSH_DSA: u8 = 6;
pub const SIG_MLDSA44: u8 = 7;
pub const SIG_MLDSA65: u8 = 8;
pub const N_SIG_FAST: u8 = 3;
pub const N_SIG_DET: u8 = 7;
pub const N_SIG_ALL: u8 = 9;

pub fn sig_scheme(code: u8) -> SignatureScheme {
    match code {
        SIG_SCHNORR => SignatureScheme::Schnorr,
        SIG_ECDSA => SignatureScheme::Ecdsa,
        SIG_ED25519 => SignatureScheme::Ed25519,
        SIG_SSH_ED25519 => SignatureScheme::SshEd25519,
        SIG_SSH_P256 => SignatureScheme::SshEcdsaP256,
        SIG_SSH_P384 => SignatureScheme::SshEcdsaP384,
        SIG_SSH_DSA => SignatureScheme::SshDsa,
        SIG_MLDSA44 => SignatureScheme::MLDSA44,
        _ => SignatureScheme::MLDSA65,
    }
}

pub fn is_ssh(code: u8) -> bool {
    (SIG_SSH_ED25519..=SIG_SSH_DSA).contains(&code)
}
pub fn is_pq_sig(code: u8) -> bool {
    code >= SIG_MLDSA44
}

pub fn sig_options(code: u8) -> Option<SigningOptions> {
    if is_ssh(code) {
        Some(SigningOptions::Ssh { namespace: "verif".to_string(), hash_alg: ssh_key::HashAlg::Sha256 })
    } else {
        None
    }
}

static SIGN: Mutex<BTreeMap<(u8, u8), (SigningPrivateKey, SigningPublicKey)>> = Mutex::new(BTreeMap::new());
static ENC: Mutex<BTreeMap<(u8, u8), (EncapsulationPrivateKey, EncapsulationPublicKey)>> = Mutex::new(BTreeMap::new());

fn on_helper_thread<T: Send + 'static>(seed: [u8; 32], f: impl FnOnce() -> T + Send + 'static) -> T {
    let os_seed = u64::from_le_bytes(seed[..8].try_into().unwrap());
    std::thread::spawn(move || crate::osrand::with_stream(os_seed, || bc_rand::verif_with_temp_seed(seed, f))).join().expect("key generation")
}

fn seed_for(kind: &str, scheme: u8, id: u8) -> [u8; 32] {
    crate::model::sha(format!("verif-key-{}-{}-{}", kind, scheme, id).as_bytes())
}

pub fn signing(scheme: u8, id: u8) -> (SigningPrivateKey, SigningPublicKey) {
    let mut m = SIGN.lock().unwrap_or_else(|e| e.into_inner());
    m.entry((scheme, id)).or_insert_with(|| on_helper_thread(seed_for("sig", scheme, id), move || sig_scheme(scheme).keypair_opt(format!("verif-{}", id)))).clone()
}

pub const ENC_X25519: u8 = 0;
pub const ENC_MLKEM512: u8 = 1;
pub const ENC_MLKEM768: u8 = 2;

pub fn enc_scheme(code: u8) -> EncapsulationScheme {
    match code {
        ENC_X25519 => EncapsulationScheme::X25519,
        ENC_MLKEM512 => EncapsulationScheme::MLKEM512,
        _ => EncapsulationScheme::MLKEM768,
    }
}

pub fn encap(scheme: u8, id: u8) -> (EncapsulationPrivateKey, EncapsulationPublicKey) {
    let mut m = ENC.lock().unwrap_or_else(|e| e.into_inner());
    m.entry((scheme, id)).or_insert_with(|| on_helper_thread(seed_for("enc", scheme, id), move || enc_scheme(scheme).keypair())).clone()
}
