//! Deterministic long-lived key pool: a key is a pure function of (scheme code, id), derived
//! through the entropy seam with a temporary seed, cached per worker thread.
//! ML-DSA / ML-KEM keys come from pqcrypto (OS randomness, not controllable): they are used
//! only in fenced thorough-tier scenarios and never enter a trace hash.

use bc_components::{EncapsulationPrivateKey, EncapsulationPublicKey, EncapsulationScheme, SignatureScheme, SigningOptions, SigningPrivateKey, SigningPublicKey};
use std::cell::RefCell;
use std::collections::HashMap;

pub const SIG_SCHNORR: u8 = 0;
pub const SIG_ECDSA: u8 = 1;
pub const SIG_ED25519: u8 = 2;
pub const SIG_SSH_ED25519: u8 = 3;
pub const SIG_SSH_P256: u8 = 4;
pub const SIG_SSH_P384: u8 = 5;
pub const SIG_SSH_DSA: u8 = 6;
pub const SIG_MLDSA44: u8 = 7;
pub const SIG_MLDSA65: u8 = 8;
pub const N_SIG_FAST: u8 = 3;
pub const N_SIG_DET: u8 = 7;
pub const N_SIG_ALL: u8 = 9;

pub fn sig_scheme(code: u8) -> SignatureScheme {
    match code {
        SIG_SCHNORR => SignatureScheme::Schnorr,
        SIG_ECDSA => SignatureScheme::Ecdsa,
        SIG_ED25519 => SignatureScheme::Ed25519,
        SIG_SSH_ED25519 => SignatureScheme::SshEd25519,
        SIG_SSH_P256 => SignatureScheme::SshEcdsaP256,
        SIG_SSH_P384 => SignatureScheme::SshEcdsaP384,
        SIG_SSH_DSA => SignatureScheme::SshDsa,
        SIG_MLDSA44 => SignatureScheme::MLDSA44,
        _ => SignatureScheme::MLDSA65,
    }
}

pub fn is_ssh(code: u8) -> bool {
    (SIG_SSH_ED25519..=SIG_SSH_DSA).contains(&code)
}
pub fn is_pq_sig(code: u8) -> bool {
    code >= SIG_MLDSA44
}

pub fn sig_options(code: u8) -> Option<SigningOptions> {
    if is_ssh(code) {
        Some(SigningOptions::Ssh { namespace: "verif".to_string(), hash_alg: ssh_key::HashAlg::Sha256 })
    } else {
        None
    }
}

thread_local! {
    static SIGN: RefCell<HashMap<(u8, u8), (SigningPrivateKey, SigningPublicKey)>> = RefCell::new(HashMap::new());
    static ENC: RefCell<HashMap<(u8, u8), (EncapsulationPrivateKey, EncapsulationPublicKey)>> = RefCell::new(HashMap::new());
}

fn seed_for(kind: &str, scheme: u8, id: u8) -> [u8; 32] {
    crate::model::sha(format!("verif-key-{}-{}-{}", kind, scheme, id).as_bytes())
}

pub fn signing(scheme: u8, id: u8) -> (SigningPrivateKey, SigningPublicKey) {
    SIGN.with(|m| {
        let mut m = m.borrow_mut();
        m.entry((scheme, id))
            .or_insert_with(|| bc_rand::verif_with_temp_seed(seed_for("sig", scheme, id), || sig_scheme(scheme).keypair_opt(format!("verif-{}", id))))
            .clone()
    })
}

pub const ENC_X25519: u8 = 0;
pub const ENC_MLKEM512: u8 = 1;
pub const ENC_MLKEM768: u8 = 2;

pub fn enc_scheme(code: u8) -> EncapsulationScheme {
    match code {
        ENC_X25519 => EncapsulationScheme::X25519,
        ENC_MLKEM512 => EncapsulationScheme::MLKEM512,
        _ => EncapsulationScheme::MLKEM768,
    }
}

pub fn encap(scheme: u8, id: u8) -> (EncapsulationPrivateKey, EncapsulationPublicKey) {
    ENC.with(|m| {
        let mut m = m.borrow_mut();
        m.entry((scheme, id)).or_insert_with(|| bc_rand::verif_with_temp_seed(seed_for("enc", scheme, id), || enc_scheme(scheme).keypair())).clone()
    })
}
