//! Fault engine for bytes in transit / at rest, and the C06 decoder family.
//! A receiver decodes what the faulty network or storage delivers.

use crate::bridge::*;
use crate::core::{Ctx, Scenario, Step};
use crate::cv::{hex, Body, Item};
use crate::hist::{self, StepResult, World};
use crate::model::*;
use crate::rng::SimRng;
use bc_envelope::prelude::*;

/// A site of the encoded envelope, found by walking the raw item tree along the envelope grammar.
#[derive(Clone, Debug)]
pub struct Site {
    pub path: Vec<usize>,
    pub kind: SiteKind,
}

#[derive(Clone, Copy, Debug, PartialEq, Eq)]
pub enum SiteKind {
    Node,
    AssertionMap,
    Elided,
    LeafTag,
    WrappedTag,
    Encrypted,
    Compressed,
    Known,
    /// any item inside leaf content
    Content,
}

fn collect_sites(item: &Item, path: &mut Vec<usize>, envpos: bool, out: &mut Vec<Site>) {
    if envpos {
        match item.major {
            4 => {
                out.push(Site { path: path.clone(), kind: SiteKind::Node });
                for (i, c) in item.items().iter().enumerate() {
                    path.push(i);
                    collect_sites(c, path, true, out);
                    path.pop();
                }
            }
            5 => {
                out.push(Site { path: path.clone(), kind: SiteKind::AssertionMap });
                for (i, c) in item.items().iter().enumerate() {
                    path.push(i);
                    collect_sites(c, path, true, out);
                    path.pop();
                }
            }
            2 => out.push(Site { path: path.clone(), kind: SiteKind::Elided }),
            0 => out.push(Site { path: path.clone(), kind: SiteKind::Known }),
            6 => match item.arg {
                TAG_LEAF | TAG_LEGACY_LEAF => {
                    out.push(Site { path: path.clone(), kind: SiteKind::LeafTag });
                    path.push(0);
                    collect_sites(&item.items()[0], path, false, out);
                    path.pop();
                }
                TAG_ENVELOPE => {
                    out.push(Site { path: path.clone(), kind: SiteKind::WrappedTag });
                    path.push(0);
                    collect_sites(&item.items()[0], path, true, out);
                    path.pop();
                }
                TAG_ENCRYPTED => out.push(Site { path: path.clone(), kind: SiteKind::Encrypted }),
                TAG_COMPRESSED => out.push(Site { path: path.clone(), kind: SiteKind::Compressed }),
                _ => {}
            },
            _ => {}
        }
    } else {
        out.push(Site { path: path.clone(), kind: SiteKind::Content });
        for (i, c) in item.items().iter().enumerate() {
            path.push(i);
            collect_sites(c, path, false, out);
            path.pop();
        }
    }
}

pub fn sites_of(top: &Item) -> Vec<Site> {
    let mut out = vec![];
    if top.is_tag(TAG_ENVELOPE) {
        let mut path = vec![0];
        collect_sites(&top.items()[0], &mut path, true, &mut out);
    }
    out
}

fn at_mut<'a>(item: &'a mut Item, path: &[usize]) -> Option<&'a mut Item> {
    let mut cur = item;
    for &i in path {
        cur = cur.items_mut()?.get_mut(i)?;
    }
    Some(cur)
}

pub const N_STRUCT_KINDS: u64 = 22;

pub struct Mutation {
    pub bytes: Vec<u8>,
    pub name: &'static str,
    /// ill-formed by construction: the decoder must reject
    pub must_reject: bool,
    /// the simulator expects the decoder to accept (the tolerated alias)
    pub alias: bool,
}

fn pick_site<'a>(sites: &'a [Site], sel: u64, f: impl Fn(&Site) -> bool) -> Option<&'a Site> {
    let c: Vec<&Site> = sites.iter().filter(|s| f(s)).collect();
    if c.is_empty() {
        None
    } else {
        Some(c[(sel % c.len() as u64) as usize])
    }
}

fn all_items_paths(item: &Item, path: &mut Vec<usize>, out: &mut Vec<Vec<usize>>) {
    out.push(path.clone());
    for (i, c) in item.items().iter().enumerate() {
        path.push(i);
        all_items_paths(c, path, out);
        path.pop();
    }
}

/// Structure-aware mutation of a valid envelope encoding. Returns None when the chosen kind has no site.
pub fn struct_mutate(bytes: &[u8], kind: u64, sel: u64, arg: u64) -> Option<Mutation> {
    let mut top = Item::decode(bytes).ok()?;
    let sites = sites_of(&top);
    let m = |top: &Item, name: &'static str, must_reject: bool| Some(Mutation { bytes: top.encode(), name, must_reject, alias: false });
    match kind % N_STRUCT_KINDS {
        0 => {
            // swap two assertion elements of a node (their digests differ in a valid encoding)
            let s = pick_site(&sites, sel, |s| s.kind == SiteKind::Node)?.clone();
            let node = at_mut(&mut top, &s.path)?;
            let v = node.items_mut()?;
            if v.len() < 3 {
                return None;
            }
            let i = 1 + (arg % (v.len() as u64 - 1)) as usize;
            let j = 1 + ((arg / 7 + 1 + i as u64) % (v.len() as u64 - 1)) as usize;
            if i == j || v[i] == v[j] {
                return None;
            }
            v.swap(i, j);
            m(&top, "cbor.struct.swap-assertions", true)
        }
        1 => {
            let s = pick_site(&sites, sel, |s| s.kind == SiteKind::Node)?.clone();
            let node = at_mut(&mut top, &s.path)?;
            let v = node.items_mut()?;
            if v.len() < 2 {
                return None;
            }
            let i = 1 + (arg % (v.len() as u64 - 1)) as usize;
            let dup = v[i].clone();
            v.insert(i, dup);
            node.fix_count();
            m(&top, "cbor.struct.duplicate-assertion", true)
        }
        2 => {
            let s = pick_site(&sites, sel, |s| s.kind == SiteKind::Node)?.clone();
            let node = at_mut(&mut top, &s.path)?;
            let v = node.items_mut()?;
            if arg % 2 == 0 {
                v.truncate(1);
            } else {
                v.clear();
            }
            node.fix_count();
            m(&top, "cbor.struct.drop-all-assertions", true)
        }
        3 => {
            // a non-assertion, non-obscured element in an assertion slot
            let s = pick_site(&sites, sel, |s| s.kind == SiteKind::Node)?.clone();
            let node = at_mut(&mut top, &s.path)?;
            let v = node.items_mut()?;
            if v.len() < 2 {
                return None;
            }
            let i = 1 + (arg % (v.len() as u64 - 1)) as usize;
            let an_assertion = Item::map_flat(vec![Item::tagged(TAG_LEAF, Item::text("knows")), Item::tagged(TAG_LEAF, Item::uint(arg % 7))]);
            v[i] = match arg % 9 {
                // a wrapped envelope is not an assertion, whatever it wraps: an elided digest, a node with an elided
                // subject, an assertion
                6 => Item::tagged(TAG_ENVELOPE, Item::bytes(vec![0x5au8; 32])),
                7 => Item::tagged(TAG_ENVELOPE, Item::array(vec![Item::bytes(vec![0x33u8; 32]), an_assertion.clone()])),
                8 => Item::tagged(TAG_ENVELOPE, an_assertion.clone()),
                0 => Item::tagged(TAG_LEAF, Item::uint(arg % 1000)),
                1 => Item::uint(arg % 1000),
                2 => Item::tagged(TAG_ENVELOPE, Item::tagged(TAG_LEAF, Item::uint(3))),
                // a node whose subject is not an assertion (it has assertions of its own, but it is not one)
                3 => Item::array(vec![Item::tagged(TAG_LEAF, Item::text("Bob")), an_assertion]),
                4 => Item::array(vec![Item::uint(arg % 50), an_assertion]),
                _ => Item::array(vec![Item::tagged(TAG_ENVELOPE, Item::tagged(TAG_LEAF, Item::uint(1))), an_assertion]),
            };
            m(&top, "cbor.struct.non-assertion-in-slot", true)
        }
        4 => {
            // unknown tag at an envelope position (or at the top)
            let unknown = [202u64, 199, 25, 40004, 39999, 1][(arg % 6) as usize];
            if sel % 5 == 0 {
                top.arg = unknown;
                top.ai = Item::new(6, unknown, Body::None).ai;
                return m(&top, "cbor.struct.retag-top", true);
            }
            let s = pick_site(&sites, sel, |s| matches!(s.kind, SiteKind::LeafTag | SiteKind::WrappedTag | SiteKind::Encrypted | SiteKind::Compressed))?.clone();
            let it = at_mut(&mut top, &s.path)?;
            it.arg = unknown;
            it.ai = Item::new(6, unknown, Body::None).ai;
            m(&top, "cbor.struct.retag-unknown", true)
        }
        5 => {
            let s = pick_site(&sites, sel, |s| s.kind == SiteKind::Elided)?.clone();
            let it = at_mut(&mut top, &s.path)?;
            if let Body::Bytes(b) = &mut it.body {
                match arg % 4 {
                    0 => {
                        b.pop();
                    }
                    1 => b.push(0),
                    2 => b.clear(),
                    _ => b.extend_from_slice(&[0u8; 32]),
                }
            }
            it.fix_count();
            m(&top, "cbor.struct.digest-length", true)
        }
        6 => {
            let s = pick_site(&sites, sel, |s| s.kind == SiteKind::AssertionMap)?.clone();
            let it = at_mut(&mut top, &s.path)?;
            let v = it.items_mut()?;
            if arg % 2 == 0 || v.len() < 2 {
                v.clear();
            } else {
                // a second entry with a key that sorts after/before the first; keep the map deterministic
                let k2 = Item::uint(arg % 500);
                let v2 = Item::uint(1);
                let first_key = v[0].encode();
                if k2.encode() == first_key {
                    return None;
                }
                if k2.encode() < first_key {
                    v.insert(0, v2);
                    v.insert(0, k2);
                } else {
                    v.push(k2);
                    v.push(v2);
                }
            }
            it.fix_count();
            m(&top, "cbor.struct.assertion-map-arity", true)
        }
        7 => {
            // non-shortest head on any item
            let mut paths = vec![];
            all_items_paths(&top, &mut vec![], &mut paths);
            let cands: Vec<&Vec<usize>> = paths.iter().collect();
            let p = cands[(sel % cands.len() as u64) as usize].clone();
            let it = at_mut(&mut top, &p)?;
            if it.major == 7 || it.ai >= 27 {
                return None;
            }
            let longer = match it.ai {
                0..=23 => 24 + (arg % 4) as u8,
                24 => 25 + (arg % 3) as u8,
                25 => 26 + (arg % 2) as u8,
                _ => 27,
            };
            it.ai = longer;
            m(&top, "cbor.struct.non-shortest-head", true)
        }
        8 => {
            // indefinite length
            let mut paths = vec![];
            all_items_paths(&top, &mut vec![], &mut paths);
            let mut c = vec![];
            for p in &paths {
                let mut t2 = top.clone();
                if let Some(it) = at_mut(&mut t2, p) {
                    if matches!(it.major, 2 | 3 | 4 | 5) {
                        c.push(p.clone());
                    }
                }
            }
            if c.is_empty() {
                return None;
            }
            let p = c[(sel % c.len() as u64) as usize].clone();
            let it = at_mut(&mut top, &p)?;
            if it.major == 2 || it.major == 3 {
                // one definite chunk inside an indefinite string
                let chunk = Item { major: it.major, ai: it.ai, arg: it.arg, body: it.body.clone() };
                it.body = Body::Items(vec![chunk]);
            }
            it.ai = 31;
            it.arg = 0;
            m(&top, "cbor.struct.indefinite-length", true)
        }
        9 => {
            // unsorted or duplicate keys in a content map
            let s = pick_site(&sites, sel, |s| s.kind == SiteKind::Content)?.clone();
            let it = at_mut(&mut top, &s.path)?;
            // turn whatever is there into a 2-entry map with keys out of order (or equal)
            let (k1, k2) = if arg % 2 == 0 { (Item::uint(2), Item::uint(1)) } else { (Item::uint(1), Item::uint(1)) };
            *it = Item::map_flat(vec![k1, Item::uint(0), k2, Item::uint(0)]);
            m(&top, "cbor.struct.map-key-order", true)
        }
        10 => {
            let mut b = top.encode();
            let n = 1 + (arg % 3) as usize;
            b.extend(std::iter::repeat((sel % 256) as u8).take(n));
            Some(Mutation { bytes: b, name: "cbor.struct.trailing-bytes", must_reject: true, alias: false })
        }
        11 => {
            // retype an arbitrary item (outcome not fixed; round-trip clause only)
            let mut paths = vec![];
            all_items_paths(&top, &mut vec![], &mut paths);
            let p = paths[(sel % paths.len() as u64) as usize].clone();
            let it = at_mut(&mut top, &p)?;
            *it = match arg % 6 {
                0 => Item::uint(arg % 100000),
                1 => Item::bytes(vec![(arg % 256) as u8; (arg % 40) as usize]),
                2 => Item::text("x"),
                3 => Item::array(vec![Item::uint(1), Item::uint(2)]),
                4 => Item::map_flat(vec![Item::uint(1), Item::uint(2)]),
                _ => Item::new(1, arg % 1000, Body::None),
            };
            // parents' counts are unchanged (same number of children)
            m(&top, "cbor.struct.retype", false)
        }
        12 => {
            // the tolerated alias: leaf tag 201 written as 24
            let s = pick_site(&sites, sel, |s| s.kind == SiteKind::LeafTag)?.clone();
            let it = at_mut(&mut top, &s.path)?;
            if it.arg != TAG_LEAF {
                return None;
            }
            it.arg = TAG_LEGACY_LEAF;
            it.ai = 24;
            Some(Mutation { bytes: top.encode(), name: "cbor.struct.legacy-leaf-tag", must_reject: false, alias: true })
        }
        13 => {
            // extend a node with one more element (valid assertion of small integers); order is whatever it is
            let s = pick_site(&sites, sel, |s| s.kind == SiteKind::Node)?.clone();
            let node = at_mut(&mut top, &s.path)?;
            let v = node.items_mut()?;
            let extra = Item::map_flat(vec![Item::tagged(TAG_LEAF, Item::uint(arg % 50)), Item::tagged(TAG_LEAF, Item::uint(arg / 50 % 50))]);
            if v.is_empty() {
                return None;
            }
            let pos = 1 + (arg % v.len() as u64) as usize;
            v.insert(pos.min(v.len()), extra);
            node.fix_count();
            m(&top, "cbor.struct.extend-node", false)
        }
        14 => {
            // encrypted element: extra array item / missing aad / wrong nonce length
            let s = pick_site(&sites, sel, |s| s.kind == SiteKind::Encrypted)?.clone();
            let it = at_mut(&mut top, &s.path)?;
            let arr = it.items_mut()?.get_mut(0)?;
            let v = arr.items_mut()?;
            match arg % 4 {
                0 => v.push(Item::uint(arg % 9)),
                1 => {
                    v.pop();
                }
                2 => {
                    if let Some(Body::Bytes(b)) = v.get_mut(1).map(|x| &mut x.body) {
                        b.push(0);
                    }
                    if let Some(x) = v.get_mut(1) {
                        x.fix_count();
                    }
                }
                _ => v.push(Item::bytes(vec![1, 2, 3])),
            }
            arr.fix_count();
            m(&top, "field.tamper.encrypted-shape", false)
        }
        15 => {
            // compressed element: negative checksum / size, extra item, missing digest
            let s = pick_site(&sites, sel, |s| s.kind == SiteKind::Compressed)?.clone();
            let it = at_mut(&mut top, &s.path)?;
            let arr = it.items_mut()?.get_mut(0)?;
            let v = arr.items_mut()?;
            match arg % 4 {
                0 => {
                    if let Some(x) = v.get_mut(0) {
                        x.major = 1;
                    }
                }
                1 => {
                    if let Some(x) = v.get_mut(1) {
                        x.major = 1;
                    }
                }
                2 => {
                    v.pop();
                }
                _ => v.push(Item::uint(1)),
            }
            arr.fix_count();
            m(&top, "field.tamper.compressed-shape", false)
        }
        16 => {
            // non-canonical float inside leaf content
            let s = pick_site(&sites, sel, |s| s.kind == SiteKind::Content)?.clone();
            let it = at_mut(&mut top, &s.path)?;
            *it = match arg % 5 {
                0 => Item { major: 7, ai: 26, arg: 0x3fc00000, body: Body::None },          // 1.5 as f32 (fits f16)
                1 => Item { major: 7, ai: 27, arg: 0x3ff8000000000000, body: Body::None },  // 1.5 as f64
                2 => Item { major: 7, ai: 25, arg: 0x7e01, body: Body::None },              // non-canonical NaN
                3 => Item { major: 7, ai: 27, arg: 0x4000000000000000, body: Body::None },  // 2.0 as f64 (reducible to integer)
                _ => Item { major: 7, ai: 25, arg: 0x4000, body: Body::None },              // 2.0 as f16 (reducible to integer)
            };
            m(&top, "cbor.struct.non-canonical-float", true)
        }
        17 => {
            // text that is not in Unicode NFC inside leaf content
            let s = pick_site(&sites, sel, |s| s.kind == SiteKind::Content)?.clone();
            let it = at_mut(&mut top, &s.path)?;
            *it = Item::text("e\u{301}");
            m(&top, "cbor.struct.non-nfc-text", true)
        }
        18 => {
            // simple values other than false/true/null
            let s = pick_site(&sites, sel, |s| s.kind == SiteKind::Content)?.clone();
            let it = at_mut(&mut top, &s.path)?;
            *it = Item { major: 7, ai: [23u8, 19, 0, 16][(arg % 4) as usize], arg: 0, body: Body::None };
            m(&top, "cbor.struct.simple-value", true)
        }
        21 => {
            // remove a tag: the top-level #6.200 (an envelope must be tagged: must reject), or the tag of a leaf or
            // of a wrapped envelope somewhere inside (may still be well-formed - the round-trip oracle decides)
            let inner: Vec<&Site> = sites.iter().filter(|s| matches!(s.kind, SiteKind::LeafTag | SiteKind::WrappedTag)).collect();
            if arg % 3 == 0 || inner.is_empty() {
                if top.major != 6 {
                    return None;
                }
                let content = top.items().first()?.clone();
                // what is left is ill-formed unless it is itself a tagged envelope (the content of a wrapped one)
                let still_tagged = content.is_tag(TAG_ENVELOPE);
                return m(&content, "cbor.struct.untag-top-level", !still_tagged);
            }
            let path = inner[(sel % inner.len() as u64) as usize].path.clone();
            let it = at_mut(&mut top, &path)?;
            if it.major != 6 {
                return None;
            }
            let content = it.items().first()?.clone();
            *it = content;
            m(&top, "cbor.struct.untag-inner", false)
        }
        20 => {
            // shrink a byte string inside leaf content to 0..2 bytes (stays canonical CBOR; typed values such as
            // shares, keys, salts and signatures then carry too little data)
            let mut paths = vec![];
            all_items_paths(&top, &mut vec![], &mut paths);
            let mut c = vec![];
            for p in &paths {
                let mut t2 = top.clone();
                if let Some(it) = at_mut(&mut t2, p) {
                    if it.major == 2 && it.ai != 31 && it.arg > 2 && it.arg != 32 {
                        c.push(p.clone());
                    }
                }
            }
            if c.is_empty() {
                return None;
            }
            let p = c[(sel % c.len() as u64) as usize].clone();
            let it = at_mut(&mut top, &p)?;
            if let Body::Bytes(b) = &mut it.body {
                b.truncate((arg % 3) as usize);
            }
            it.fix_count();
            m(&top, "cbor.struct.shrink-byte-string", false)
        }
        _ => {
            // drop one element of a node (still >= 2 elements): stays well-formed, different envelope
            let s = pick_site(&sites, sel, |s| s.kind == SiteKind::Node)?.clone();
            let node = at_mut(&mut top, &s.path)?;
            let v = node.items_mut()?;
            if v.len() < 3 {
                return None;
            }
            let i = 1 + (arg % (v.len() as u64 - 1)) as usize;
            v.remove(i);
            node.fix_count();
            m(&top, "cbor.struct.drop-assertion", false)
        }
    }
}

/// Byte-level corruption. kind: 0 flip one bit, 1 truncate, 2 insert a byte, 3 delete a byte, 4 overwrite a byte
pub fn byte_mutate(bytes: &[u8], kind: u64, pos: u64, val: u64) -> Option<(Vec<u8>, &'static str)> {
    if bytes.is_empty() {
        return None;
    }
    let mut b = bytes.to_vec();
    let n = b.len() as u64;
    Some(match kind % 5 {
        0 => {
            let bit = pos % (n * 8);
            b[(bit / 8) as usize] ^= 1 << (bit % 8);
            (b, "bytes.bitflip")
        }
        1 => {
            b.truncate((pos % n) as usize);
            (b, "bytes.truncate")
        }
        2 => {
            b.insert((pos % (n + 1)) as usize, (val % 256) as u8);
            (b, "bytes.insert")
        }
        3 => {
            b.remove((pos % n) as usize);
            (b, "bytes.delete")
        }
        _ => {
            b[(pos % n) as usize] = (val % 256) as u8;
            (b, "bytes.overwrite")
        }
    })
}

/// Rewrite tag 24 to 201 at leaf positions of the envelope grammar (the tolerated alias).
pub fn normalise_alias(bytes: &[u8]) -> Option<Vec<u8>> {
    let mut top = Item::decode(bytes).ok()?;
    fn rec(item: &mut Item) {
        match item.major {
            4 | 5 => {
                if let Some(v) = item.items_mut() {
                    for c in v {
                        rec(c);
                    }
                }
            }
            6 => {
                if item.arg == TAG_LEGACY_LEAF && item.ai == 24 {
                    item.arg = TAG_LEAF;
                } else if item.arg == TAG_ENVELOPE {
                    if let Some(v) = item.items_mut() {
                        rec(&mut v[0]);
                    }
                }
            }
            _ => {}
        }
    }
    if top.is_tag(TAG_ENVELOPE) {
        if let Some(v) = top.items_mut() {
            rec(&mut v[0]);
        }
    }
    Some(top.encode())
}

/// Known dcbor defect (D11): its decoder's canonical-float checks compare with saturating
/// casts (`n as i64 as f64`, `n as i32 as f32`), so integral floats outside those ranges are
/// accepted although its encoder writes every integral float in [-2^64, 2^64) as an integer
/// (and, for f32, computes `-1f32 - n` in single precision, so the integer can be off by one).
/// True iff the two encodings are equal everywhere except at positions where `input` has
/// such an integral float and `output` has an integer.
pub fn explained_by_float_int(input: &[u8], output: &[u8]) -> bool {
    let (a, b) = match (Item::decode(input), Item::decode(output)) {
        (Ok(a), Ok(b)) => (a, b),
        _ => return false,
    };
    fn rec(a: &Item, b: &Item, hits: &mut u32) -> bool {
        if a.major == 7 && (a.ai == 26 || a.ai == 27) && (b.major == 0 || b.major == 1) {
            let v = if a.ai == 27 { f64::from_bits(a.arg) } else { f32::from_bits(a.arg as u32) as f64 };
            let out_of_checked_range = if a.ai == 27 { v >= 9223372036854775808.0 || v < -9223372036854775808.0 } else { v >= 2147483648.0 || v < -2147483648.0 };
            if v.is_finite() && v.fract() == 0.0 && out_of_checked_range && v < 18446744073709551616.0 && v >= -18446744073709551616.0 {
                *hits += 1;
                return true;
            }
            return false;
        }
        if a.major != b.major || a.ai != b.ai || a.arg != b.arg {
            return false;
        }
        match (&a.body, &b.body) {
            (Body::None, Body::None) => true,
            (Body::Bytes(x), Body::Bytes(y)) => x == y,
            (Body::Items(x), Body::Items(y)) => x.len() == y.len() && x.iter().zip(y.iter()).all(|(p, q)| rec(p, q, hits)),
            _ => false,
        }
    }
    let mut hits = 0;
    rec(&a, &b, &mut hits) && hits > 0
}

pub enum Decoded {
    Ok(Envelope),
    Err,
    Panic(String),
}

pub fn decode_guarded(bytes: &[u8]) -> Decoded {
    match guarded(|| Envelope::try_from_cbor_data(bytes.to_vec())) {
        Ok(Ok(e)) => Decoded::Ok(e),
        Ok(Err(_)) => Decoded::Err,
        Err(p) => Decoded::Panic(p),
    }
}

/// The three C06 clauses on one delivered byte string.
pub fn check_decode(ctx: &mut Ctx, bytes: &[u8], fault: &'static str, must_reject: bool, alias: bool) -> Option<Envelope> {
    ctx.fault(fault);
    ctx.checked();
    match decode_guarded(bytes) {
        Decoded::Panic(p) => {
            ctx.violate_sig("C06.no-panic", format!("decoder panicked on {} input {}: {}", fault, hex(&bytes[..bytes.len().min(80)]), p), p.clone());
            ctx.t(&format!("{} {}B -> panic", fault, bytes.len()));
            None
        }
        Decoded::Err => {
            ctx.probe("decoder-rejected");
            if alias {
                ctx.violate("C06.alias", format!("decoder rejected the tolerated leaf-tag alias #6.24: {}", hex(&bytes[..bytes.len().min(80)])));
            }
            ctx.t(&format!("{} {}B -> err", fault, bytes.len()));
            None
        }
        Decoded::Ok(e) => {
            ctx.probe("decoder-accepted");
            if ctx.armed("C04") {
                // decoding is a public operation too: whatever it returns must be a well-formed envelope (C04),
                // judged through case() alone
                ctx.checked();
                match guarded(|| wellformed_by_case(&e, "")) {
                    Ok(Ok(())) => {}
                    Ok(Err(x)) => ctx.violate("C04.decoded-structure", format!("the decoder returned an envelope that is not well-formed ({}): {} from {}", fault, x, hex(&bytes[..bytes.len().min(100)]))),
                    Err(p) => ctx.violate_sig("C04.decoded-structure", format!("the decoder returned an envelope whose structure cannot be inspected ({}): {}", fault, p), p),
                }
            }
            let re = match guarded(|| e.to_cbor_data()) {
                Ok(b) => b,
                Err(p) => {
                    ctx.violate_sig("C06.no-panic", format!("re-encoding an accepted envelope panicked: {}", p), p);
                    return None;
                }
            };
            if must_reject {
                ctx.violate("C06.must-reject", format!("decoder accepted an ill-formed encoding ({}): {}", fault, hex(&bytes[..bytes.len().min(120)])));
            }
            if re != bytes {
                let norm = normalise_alias(bytes);
                if norm.as_deref() != Some(&re[..]) && norm.as_deref().map(|n| explained_by_float_int(n, &re)).unwrap_or(false) {
                    ctx.violate_sig(
                        "C06.roundtrip",
                        format!("decoder accepted a non-canonical float (integral value outside the i32/i64 range its check covers) and re-encodes it as an integer: in {} out {}", hex(&bytes[..bytes.len().min(100)]), hex(&re[..re.len().min(100)])),
                        "dcbor-float-int-range".to_string(),
                    );
                } else if norm.as_deref() != Some(&re[..]) {
                    ctx.violate("C06.roundtrip", format!("decoder accepted {} input but re-encodes it differently: in {} out {}", fault, hex(&bytes[..bytes.len().min(100)]), hex(&re[..re.len().min(100)])));
                } else {
                    ctx.probe("alias-24-accepted");
                }
            }
            ctx.t(&format!("{} {}B -> ok {}", fault, bytes.len(), dhex(&digest_of(&e))));
            Some(e)
        }
    }
}

fn fault_step(w: &mut World, ctx: &mut Ctx, st: &Step) -> StepResult {
    let d = match w.idx(st.arg(0)) {
        Some(i) => i,
        None => return StepResult::Skipped,
    };
    let base = w.docs[d].bytes.clone();
    match st.op.as_str() {
        "ByteFault" => {
            let (b, name) = match byte_mutate(&base, st.arg(1), st.arg(2), st.arg(3)) {
                Some(x) => x,
                None => return StepResult::Skipped,
            };
            if b == base {
                return StepResult::Skipped;
            }
            check_decode(ctx, &b, name, false, false);
            StepResult::Produced
        }
        "ByteFault2" => {
            let (b1, _) = match byte_mutate(&base, st.arg(1), st.arg(2), st.arg(3)) {
                Some(x) => x,
                None => return StepResult::Skipped,
            };
            let (b2, _) = match byte_mutate(&b1, st.arg(1) / 5, st.arg(4), st.arg(5)) {
                Some(x) => x,
                None => return StepResult::Skipped,
            };
            if b2 == base {
                return StepResult::Skipped;
            }
            check_decode(ctx, &b2, "bytes.double", false, false);
            StepResult::Produced
        }
        "StructFault" => {
            let mu = match struct_mutate(&base, st.arg(1), st.arg(2), st.arg(3)) {
                Some(m) => m,
                None => return StepResult::Skipped,
            };
            if mu.bytes == base {
                return StepResult::Skipped;
            }
            check_decode(ctx, &mu.bytes, mu.name, mu.must_reject, mu.alias);
            StepResult::Produced
        }
        "StructFault2" => {
            // two structural mutations; must-reject is only kept when the second cannot repair the first:
            // we conservatively keep it only if both are must-reject kinds
            let m1 = match struct_mutate(&base, st.arg(1), st.arg(2), st.arg(3)) {
                Some(m) => m,
                None => return StepResult::Skipped,
            };
            let m2 = match struct_mutate(&m1.bytes, st.arg(4), st.arg(5), st.arg(3) / 3) {
                Some(m) => m,
                None => return StepResult::Skipped,
            };
            if m2.bytes == base {
                return StepResult::Skipped;
            }
            // a second mutation can overwrite the site of the first; ill-formedness by construction is
            // only certain for single mutations, so the double form checks clauses (1) and (2) only
            check_decode(ctx, &m2.bytes, "cbor.struct.double", false, false);
            StepResult::Produced
        }
        "StructThenByte" => {
            let m1 = match struct_mutate(&base, st.arg(1), st.arg(2), st.arg(3)) {
                Some(m) => m,
                None => return StepResult::Skipped,
            };
            let (b2, _) = match byte_mutate(&m1.bytes, 0, st.arg(4), 0) {
                Some(x) => x,
                None => return StepResult::Skipped,
            };
            check_decode(ctx, &b2, "cbor.struct+bitflip", false, false);
            StepResult::Produced
        }
        "RandomBytes" => {
            let mut r = SimRng::new(st.arg(1));
            let n = (st.arg(2) % 64) as usize;
            let mut b = r.bytes(n);
            if st.arg(3) % 2 == 0 {
                // get past the outer tag
                let mut p = vec![0xd8, 0xc8];
                p.append(&mut b);
                b = p;
            }
            check_decode(ctx, &b, "bytes.random", false, false);
            StepResult::Produced
        }
        "FlipAllBits" => {
            // fault enumeration: every single-bit flip of this encoding (bounded size)
            if base.len() > 220 {
                return StepResult::Skipped;
            }
            for bit in 0..(base.len() * 8) {
                let mut b = base.clone();
                b[bit / 8] ^= 1 << (bit % 8);
                check_decode(ctx, &b, "bytes.bitflip", false, false);
                if ctx.failed() {
                    break;
                }
            }
            ctx.probe("flip-all-bits-encodings");
            StepResult::Produced
        }
        "StructAll" => {
            // fault enumeration: every structural mutation kind at every site selector 0..k of this encoding
            for kind in 0..N_STRUCT_KINDS {
                for sel in 0..6u64 {
                    for arg in 0..3u64 {
                        if let Some(mu) = struct_mutate(&base, kind, sel, arg + st.arg(1) % 7) {
                            if mu.bytes != base {
                                check_decode(ctx, &mu.bytes, mu.name, mu.must_reject, mu.alias);
                            }
                        }
                    }
                }
                if ctx.failed() {
                    break;
                }
            }
            StepResult::Produced
        }
        _ => StepResult::Skipped,
    }
}

pub fn run(scn: &Scenario, ctx: &mut Ctx) {
    let mut w = World::new(scn.cfg("leafdom", crate::gen::DOM_ALL));
    for (i, st) in scn.steps.iter().enumerate() {
        ctx.step = i;
        ctx.sim_ticks += 1;
        let r = match st.op.as_str() {
            "ByteFault" | "ByteFault2" | "StructFault" | "StructFault2" | "StructThenByte" | "RandomBytes" | "FlipAllBits" | "StructAll" => fault_step(&mut w, ctx, st),
            _ => hist::exec_step(&mut w, ctx, st),
        };
        if !matches!(r, StepResult::Skipped) {
            ctx.executed += 1;
        }
        if ctx.failed() && ctx.stop_at_first {
            break;
        }
    }
}

/// C06 scenarios: a short history builds documents (every obscuration pattern), then the
/// network/storage corrupts their encodings on the way to a decoder.
pub fn generate(property: &str, r: &mut SimRng, seed: u64) -> Scenario {
    let mut scn = hist::generate(property, r, seed);
    scn.family = "wire".to_string();
    // keep the building prefix short
    let keep = r.range(2, 9) as usize;
    scn.steps.truncate(keep.max(2));
    let thorough = false;
    let _ = thorough;
    let nf = r.range(1, 8);
    for _ in 0..nf {
        let d = if r.chance(2, 3) { r.below(3) } else { r.below(12) };
        match r.below(12) {
            0..=2 => scn.push("ByteFault", &[d, r.below(5), r.next() % 100000, r.below(256)]),
            3 => scn.push("ByteFault2", &[d, r.below(25), r.next() % 100000, r.below(256), r.next() % 100000, r.below(256)]),
            4..=7 => scn.push("StructFault", &[d, r.below(N_STRUCT_KINDS), r.below(16), r.below(1000)]),
            8 => scn.push("StructFault2", &[d, r.below(N_STRUCT_KINDS), r.below(16), r.below(1000), r.below(N_STRUCT_KINDS), r.below(16)]),
            9 => scn.push("StructThenByte", &[d, r.below(N_STRUCT_KINDS), r.below(16), r.below(1000), r.next() % 100000]),
            10 => scn.push("RandomBytes", &[d, r.next(), r.below(64), r.below(2)]),
            _ => scn.push("StructFault", &[d, r.below(N_STRUCT_KINDS), r.below(16), r.below(1000)]),
        }
    }
    scn
}

/// Thorough-tier family: exhaustive single-fault enumeration on each small encoding.
pub fn generate_enum(property: &str, r: &mut SimRng, seed: u64) -> Scenario {
    let mut scn = hist::generate(property, r, seed);
    scn.family = "wire".to_string();
    let keep = r.range(2, 8) as usize;
    scn.steps.truncate(keep.max(2));
    scn.push("FlipAllBits", &[0]);
    scn.push("StructAll", &[0, r.below(7)]);
    if r.chance(1, 2) {
        scn.push("FlipAllBits", &[1]);
    }
    scn
}
