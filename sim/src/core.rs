//! Scenario data (explicit, serialisable op lists), run context (trace, oracles, probes,
//! fault counters) and outcome. A run is a pure function of (Scenario, code).

use crate::rng::SimRng;
use serde_json::{json, Value};
use sha2::{Digest as _, Sha256};
use std::collections::BTreeMap;

/// One step of a scenario: an operation name and up to six integer arguments. Documents,
/// keys, targets and parties are addressed by index modulo the live count, and values are
/// derived deterministically from integer codes, so a step stays meaningful when earlier
/// steps are deleted or its arguments are shrunk.
#[derive(Clone, Debug, PartialEq, Eq)]
pub struct Step {
    pub op: String,
    pub a: Vec<u64>,
}

impl Step {
    pub fn new(op: &str, a: &[u64]) -> Step {
        Step { op: op.to_string(), a: a.to_vec() }
    }
    pub fn arg(&self, i: usize) -> u64 {
        self.a.get(i).copied().unwrap_or(0)
    }
    pub fn to_json(&self) -> Value {
        json!({"op": self.op, "a": self.a})
    }
    pub fn from_json(v: &Value) -> Option<Step> {
        let op = v.get("op")?.as_str()?.to_string();
        let a = v.get("a")?.as_array()?.iter().map(|x| x.as_u64()).collect::<Option<Vec<u64>>>()?;
        Some(Step { op, a })
    }
    pub fn short(&self) -> String {
        format!("{}({})", self.op, self.a.iter().map(|x| x.to_string()).collect::<Vec<_>>().join(","))
    }
}

#[derive(Clone, Debug)]
pub struct Scenario {
    pub property: String,
    pub family: String,
    /// seeds the library-entropy stream and every key derived inside the run
    pub seed: u64,
    pub cfg: BTreeMap<String, u64>,
    pub steps: Vec<Step>,
}

impl Scenario {
    pub fn new(property: &str, family: &str, seed: u64) -> Scenario {
        Scenario { property: property.to_string(), family: family.to_string(), seed, cfg: BTreeMap::new(), steps: vec![] }
    }
    pub fn cfg(&self, k: &str, default: u64) -> u64 {
        self.cfg.get(k).copied().unwrap_or(default)
    }
    pub fn push(&mut self, op: &str, a: &[u64]) {
        self.steps.push(Step::new(op, a));
    }
    pub fn to_json(&self) -> Value {
        json!({
            "property": self.property, "family": self.family, "seed": self.seed,
            "cfg": self.cfg.iter().map(|(k, v)| (k.clone(), json!(v))).collect::<serde_json::Map<String, Value>>(),
            "steps": self.steps.iter().map(|s| s.to_json()).collect::<Vec<_>>(),
        })
    }
    pub fn from_json(v: &Value) -> Option<Scenario> {
        let mut cfg = BTreeMap::new();
        if let Some(o) = v.get("cfg").and_then(|c| c.as_object()) {
            for (k, x) in o {
                cfg.insert(k.clone(), x.as_u64()?);
            }
        }
        Some(Scenario {
            property: v.get("property")?.as_str()?.to_string(),
            family: v.get("family")?.as_str()?.to_string(),
            seed: v.get("seed")?.as_u64()?,
            cfg,
            steps: v.get("steps")?.as_array()?.iter().map(Step::from_json).collect::<Option<Vec<_>>>()?,
        })
    }
    pub fn summary(&self) -> String {
        format!("{}:{} [{}]", self.property, self.family, self.steps.iter().map(|s| s.short()).collect::<Vec<_>>().join(" "))
    }
}

#[derive(Clone, Debug)]
pub struct Violation {
    /// e.g. "C01.digest-at-position"
    pub oracle: String,
    pub step: usize,
    pub msg: String,
    /// for panics: location; used to match known findings
    pub signature: String,
}

/// Per-run context handed to the executors.
pub struct Ctx {
    pub property: String,
    pub trace: Sha256,
    pub trace_lines: Option<Vec<String>>,
    pub violations: Vec<Violation>,
    pub probes: BTreeMap<&'static str, u64>,
    pub faults: BTreeMap<&'static str, u64>,
    pub oracle_evals: u64,
    pub nontrivial: bool,
    pub shape: u64,
    pub step: usize,
    pub lib_rng: SimRng,
    pub sim_ticks: u64,
    /// how many steps were actually executed (not skipped as meaningless)
    pub executed: u64,
    pub stop_at_first: bool,
    /// set when bytes outside the simulator's control (pqcrypto randomness) enter the run:
    /// from then on nothing is added to the trace hash
    pub fenced: bool,
}

impl Ctx {
    pub fn new(property: &str, seed: u64, keep_lines: bool) -> Ctx {
        Ctx {
            property: property.to_string(),
            trace: Sha256::new(),
            trace_lines: if keep_lines { Some(vec![]) } else { None },
            violations: vec![],
            probes: BTreeMap::new(),
            faults: BTreeMap::new(),
            oracle_evals: 0,
            nontrivial: false,
            shape: 0xcbf29ce484222325,
            step: 0,
            lib_rng: SimRng::new(seed).fork("lib-entropy"),
            sim_ticks: 0,
            executed: 0,
            stop_at_first: true,
            fenced: false,
        }
    }
    /// Install the library entropy stream for this run on the current thread.
    pub fn install_entropy(&mut self) {
        bc_rand::verif_set_thread_seed(Some(self.lib_rng.seed32()));
    }
    /// Record an event in the trace. Never draws randomness, never reads a clock.
    pub fn t(&mut self, line: &str) {
        if self.fenced {
            return;
        }
        self.trace.update(line.as_bytes());
        self.trace.update(b"\n");
        if let Some(l) = &mut self.trace_lines {
            l.push(format!("[{}] {}", self.step, line));
        }
    }
    pub fn probe(&mut self, name: &'static str) {
        *self.probes.entry(name).or_insert(0) += 1;
    }
    pub fn fault(&mut self, name: &'static str) {
        *self.faults.entry(name).or_insert(0) += 1;
    }
    pub fn shape_mix(&mut self, x: u64) {
        self.shape = (self.shape ^ x).wrapping_mul(0x100000001b3).rotate_left(7);
    }
    /// An oracle was evaluated with a non-vacuous precondition.
    pub fn checked(&mut self) {
        self.oracle_evals += 1;
        self.nontrivial = true;
    }
    pub fn violate(&mut self, oracle: &str, msg: String) {
        self.violate_sig(oracle, msg, String::new());
    }
    pub fn violate_sig(&mut self, oracle: &str, msg: String, signature: String) {
        // an oracle of another property is never reported in this property's run
        if !oracle.starts_with(&self.property) {
            return;
        }
        // A panic while the process-wide format context is locked poisons that lock, after which EVERY later
        // formatting call in this process panics with a PoisonError. Those are victims of an earlier panic
        // (reported by the run in which it happened), not violations of their own.
        if msg.contains("PoisonError") {
            self.probe("poisoned-lock-victim");
            return;
        }
        self.t(&format!("VIOLATION {} {}", oracle, msg));
        self.violations.push(Violation { oracle: oracle.to_string(), step: self.step, msg, signature });
    }
    pub fn armed(&self, property: &str) -> bool {
        self.property == property
    }
    /// Has this run found something that should stop it? Violations carrying the narrow signature of a
    /// listed known finding (decided by the driver against known_findings.json) do not stop the run,
    /// so that they cannot hide a different violation later in the same run.
    pub fn failed(&self) -> bool {
        self.violations.iter().any(|v| !(v.signature == "dcbor-date-fraction" || v.signature == "dcbor-float-int-range" || v.signature == "ssh-key-ecdsa-signature-encoding" || (v.signature.contains("/src/date.rs") && v.msg.contains("out-of-range date leaf"))))
    }
    pub fn trace_hash(&self) -> String {
        let h = self.trace.clone().finalize();
        crate::cv::hex(&h[..16])
    }
}

pub struct Outcome {
    pub violations: Vec<Violation>,
    pub trace_hash: String,
    pub trace_lines: Option<Vec<String>>,
    pub probes: BTreeMap<&'static str, u64>,
    pub faults: BTreeMap<&'static str, u64>,
    pub oracle_evals: u64,
    pub nontrivial: bool,
    pub shape: u64,
    pub sim_ticks: u64,
    pub executed: u64,
    /// the thread's std RandomState keys when the run started (None if the OS-randomness seam is off)
    pub hash_keys: Option<(u64, u64)>,
}

impl Outcome {
    pub fn from_ctx(ctx: Ctx) -> Outcome {
        let trace_hash = ctx.trace_hash();
        Outcome {
            violations: ctx.violations,
            trace_hash,
            trace_lines: ctx.trace_lines,
            probes: ctx.probes,
            faults: ctx.faults,
            oracle_evals: ctx.oracle_evals,
            nontrivial: ctx.nontrivial,
            shape: ctx.shape,
            sim_ticks: ctx.sim_ticks,
            executed: ctx.executed,
            hash_keys: None,
        }
    }
}
